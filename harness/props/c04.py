"""C04 — Sources override each other in the documented order, left to right.

Pipeline
 (1) regenerate Gen/SourcesOrder (shape of the pipeline read off the AST) and build Props/C04 (the model
     pipeline of Core/Sources.lean equals the reference fold, key by key; the shape pin);
 (2) correspondence: ONE JSON parser spec builds the real ArgumentParser and the model parser; every
     subset of sources (0-4 default config files through three patterns, one of them a glob matching
     two files; env config variable; env variables; 0-6 command line items: `--k=v`, `--k v`,
     `--k+=v`, `--k.item=v`, `--cfg file`, `--cfg '{json}'`; `k+` keys inside config files) for
     parse_args / parse_env / parse_string / parse_path / parse_object; real result vs Lean model
     (Drv/Sources) key by key, acceptance included;
 (3) property oracle on the real code, independent of the model: the ten-line `ref_fold` below over
     the same sources flattened in the documented order;
 (4) replay of the open findings.
"""
from __future__ import annotations

import atexit
import copy
import itertools
import json
import os
import shutil
import tempfile

from ..lib.common import Ctx, MachineryError, repo_python_path

MANIFEST = {
    "engine": "Sources",
    "technique": "Lean 4 proof that a model of the parser's precedence pipeline (get_defaults, _load_env_vars, merge_config = update + apply_appends, "
                 "argv fold with --cfg at its position) equals a ten-line reference fold of assignments, key by key; differential correspondence of "
                 "the model with the real ArgumentParser over generated parsers and every subset of sources; regenerated table of the merge calls / loop "
                 "order the model transcribes (Gen/SourcesOrder, pinned by a theorem); independent Python reference fold as oracle; "
                 "second part: Lean model of the default_env property setter over the parser tree (uniformity after any history of setter calls) and of "
                 "the subcommand levels (every level's own parse_args + the handle_subcommands merges of all enclosing parsers), proof that the order of "
                 "sources holds at every depth when the flags along the path agree, correspondence and oracle over histories (setter calls interleaved "
                 "with parses) on real parser trees up to three levels below the root",
    "text": "Theorems in lean/Jap/Props/C04.lean prove, for every parser of the model (leaf arguments with flat or dotted destinations that are pairwise "
            "divergent, scalar / list / dict typed, one config argument), every list of default config files, environment and command line of any length, "
            "that the value the model pipeline leaves at every argument equals the left fold of the flattened sources in the documented order "
            "(defaults, default config files, env config, env variables, command line with configs at their position), with replace / append / "
            "dict-item semantics, under the one guard the code needs (no 'key+' entry in the config given through the environment variable: open "
            "finding, refutation witness proved; C04_order_exact states what the code does without the guard).  The model is tied to the code by "
            "regenerating, from the AST of /repo, the argument order of every merge_config call, the body of merge_config, the loops of "
            "_load_env_vars, the ordering of default config files, apply_appends, Namespace.update and get_env_var into Gen/SourcesOrder "
            "(C04_transcription_pin) and by running model and real parser on the same generated parser specs and sources and comparing every "
            "key; the property itself is evaluated on the real code against an independent reference fold.  Subcommand levels: "
            "C04_setter_uniform / _history / _path_flags / C04_build_uniform prove that after any history of assignments to the root's default_env "
            "(under any JSONARGPARSE_DEFAULT_ENV) every parser of the tree holds the same resolved flag; C04_order_depth_partial and "
            "C04_order_tree_after_setter prove, for a chosen path of subcommands of any depth and any number of sources per level, that each "
            "level's arguments end with the fold of that level's sources in the documented order (after the level's own parse_args and the "
            "handle_subcommands merges of every enclosing parser, defaults=False included) provided the parsers of the path agree on reading the "
            "environment; C04_order_depth_nonuniform_counterexample / C04_setter_shallow_counterexample show the hypothesis is needed and what a "
            "non-recursive setter would leave.  The whole default_env setter, add_subcommand's inheritance, _ActionSubCommands.__call__, "
            "handle_subcommands, parse_env and the env resolution of _parse_common are pinned; histories on real parser trees (setter calls on any "
            "parser of the tree interleaved with parse_args / parse_object along a path, env variables and options at every level, root --cfg with "
            "sections) are compared with the model (flags computed by the model's setter) and judged by an independent per-level fold.  "
            "Sections for inner levels inside an outer config and parse_object on trees are in the model (parseLevelsT / parseObjectT: own part + "
            "pending section per level, the outer merge_config's treatment of a section's key+ entries transcribed): "
            "C04_order_level_sections_partial (a level's value = fold of its base, the incoming section, its command line; any enclosing "
            "handle_subcommands), C04_sections_chain, C04_sections_last_writer, and the Lean witnesses of the two open findings of this class "
            "(C04_subsection_append_counterexample, C04_subdcf_section_counterexample).  Argument types now include Union[int, List[int]] and "
            "Optional[List[int]] (a previous scalar, 0 included, is promoted by key+; model listOf).  The variable that names the subcommand "
            "(PREFIX_SUBCOMMAND, per level) is a source of the model (envSection / envPending / finalLevelE: the named sub-parser's environment-only "
            "parse_env as a section of the parent's environment layer; levels chosen by the variable alone have no parse of their own): "
            "C04_order_level_env_named, C04_env_section_own; generated in three modes (names the path, names another subcommand, chooses the last levels alone).",
    "level_note": "Trusted: Lean kernel; axioms propext/Quot.sound/Classical.choice only; the correspondence harness and its generators; the C11 refinement "
                  "(setK/getK are __setitem__/__getitem__ when no dict value is on the key path). Outside: argparse tokenisation, glob/expanduser, the "
                  "loaders, type adaptation (values are generated in normal form), groups, links, positionals.  Subcommands: the model covers "
                  "parse_args along a path chosen on the command line and parse_object on the tree, level by level (own keys + pending section of the "
                  "next level; the nesting cfg[name] = sub is the C11 algebra; assumption checked per case: a config does not hold key+ for an own key "
                  "and for a section key at once); setter calls on inner parsers are exercised by the correspondence only (mixed flags: the "
                  "documentation does not say what to expect); default config files of parsers with subcommands are replayed as the witness of an "
                  "open finding only (C17's subject, open findings there).",
}

FINDING_ENV_APPEND = "C04-envcfg-append"

# file slots of the default_config_files patterns, in the LISTED order of the patterns; the middle
# pattern is a glob (matches come sorted).  Names are chosen so that listed order != alphabetical order.
DCF_PATTERNS = ["z.json", "m*.json", "a.json"]
DCF_ORDER = ["z.json", "m1.json", "m2.json", "a.json"]   # the four file slots (mask bits 0-3)
# lists of default_config_files entries: listed order != alphabetical order, globs, files reached by two entries
DCF_PATTERN_POOL = [
    ["z.json", "m*.json", "a.json"],
    ["m*.json", "z.json", "m1.json"],
    ["a.json", "*.json"],
    ["z.json", "[am]*.json", "z.json"],
    ["m2.json", "m1.json", "m?.json", "a.json"],
    ["*.json", "m1.json", "a.json"],
]
FINDING_STRING_NODEFAULTS = "C04-string-nodefaults"

DEST_POOL = ["n", "m", "s", "l", "d", "k", "g.l", "g.o", "g.d", "g.s", "h.x.y", "h.x.l", "h.s", "h.d"]
# "ilist" = Union[int, List[int]] (a scalar or a list: appending promotes a previous scalar, 0 included, to a one-element list),
# "olist" = Optional[List[int]]: append-capable unions
TYPES = ["int", "str", "list", "dict", "ilist", "list", "dict", "olist", "int", "str"]
KIND = {"int": "scalar", "str": "scalar", "list": "list", "dict": "dict", "ilist": "list", "olist": "list"}
APPENDABLE = ("list", "ilist", "olist")
ITEM_NAMES = ["a", "b", "c", "z"]


# ---------------------------------------------------------------- parser spec -> real parser / model parser
def py_type(t):
    from typing import Dict, List, Optional, Union

    return {"int": int, "str": str, "list": List[int], "dict": Dict[str, int], "ilist": Union[int, List[int]], "olist": Optional[List[int]]}[t]


def build_parser(spec, root):
    """the real ArgumentParser of a spec; default config files live in root/dcf"""
    from jsonargparse import ActionConfigFile, ArgumentParser

    saved = os.environ.get("JSONARGPARSE_DEFAULT_ENV")
    try:
        if spec.get("os_default_env") is not None:
            os.environ["JSONARGPARSE_DEFAULT_ENV"] = spec["os_default_env"]
        else:
            os.environ.pop("JSONARGPARSE_DEFAULT_ENV", None)
        kw = {}
        if spec.get("env_prefix") is not None:
            kw["env_prefix"] = spec["env_prefix"]
        else:
            kw["env_prefix"] = False
        p = ArgumentParser(
            prog="app", exit_on_error=False, default_env=spec["default_env"],
            default_config_files=[os.path.join(root, "dcf", x) for x in spec.get("dcf_patterns", DCF_PATTERNS)], **kw,
        )
        for a in spec["args"]:
            if a["type"] == "config":
                p.add_argument("--" + a["dest"], action=ActionConfigFile)
            elif "default" in a:
                p.add_argument("--" + a["dest"], type=py_type(a["type"]), default=copy.deepcopy(a["default"]))
            else:
                p.add_argument("--" + a["dest"], type=py_type(a["type"]))
    finally:
        if saved is None:
            os.environ.pop("JSONARGPARSE_DEFAULT_ENV", None)
        else:
            os.environ["JSONARGPARSE_DEFAULT_ENV"] = saved
    return p


def enc(v):
    """wire value for the Lean driver"""
    if v is None:
        return None
    if isinstance(v, bool):
        raise MachineryError("bool value in a C04 case")
    if isinstance(v, int):
        return v
    if isinstance(v, str):
        return {"s": v}
    if isinstance(v, list):
        return [enc(x) for x in v]
    if isinstance(v, dict):
        return {"d": [[k, enc(x)] for k, x in v.items()]}
    raise MachineryError("unexpected value %r" % (v,))


def model_parser(spec):
    args = []
    for a in spec["args"]:
        kind = "config" if a["type"] == "config" else KIND[a["type"]]
        args.append({"dest": a["dest"].split("."), "kind": kind, "default": enc(a.get("default"))})
    return {"args": args, "env_prefix": spec.get("env_prefix"), "default_env": spec["default_env"], "os_default_env": spec.get("os_default_env")}


def cfg_dest(spec):
    for a in spec["args"]:
        if a["type"] == "config":
            return a["dest"]
    return None


def arg_of(spec, dest):
    for a in spec["args"]:
        if a["dest"] == dest:
            return a
    return None


def env_name(spec, dest):
    """harness-side naming of environment variables (documented rule: PREFIX_LEV__OPT upper-cased)"""
    pre = spec.get("env_prefix")
    name = (pre.replace("-", "_") + "_" if pre is not None else "") + dest
    return name.replace(".", "__").upper()


def expected_env_on(spec):
    v = (spec.get("os_default_env") or "").lower()
    if v in ("true", "false"):
        return v == "true"
    return spec["default_env"]


# ---------------------------------------------------------------- a case on the real implementation
def render(v, typ):
    if typ == "str" and isinstance(v, str):
        return v
    return json.dumps(v)


def present_files(spec, case):
    """default config files in the order the documentation promises: entries as listed, the matches of one entry sorted,
    a file reached by two entries at both positions"""
    import fnmatch

    out = []
    for pat in spec.get("dcf_patterns", DCF_PATTERNS):
        out += sorted(n for n in case.get("files", {}) if fnmatch.fnmatchcase(n, pat))
    return out


def call_of(case):
    return case.get("defaults", True), case.get("env_arg")


def env_is_read(spec, case):
    if case["method"] in ("env", "env_dict"):
        return True
    env_arg = case.get("env_arg")
    return expected_env_on(spec) if env_arg is None else env_arg


def canon_value(v):
    from jsonargparse import Namespace

    if isinstance(v, Namespace):
        raise MachineryError("namespace value at a leaf")
    if v is None or isinstance(v, (int, str)) and not isinstance(v, bool):
        return enc(v)
    if isinstance(v, list):
        return [canon_value(x) for x in v]
    if isinstance(v, dict):
        return {"d": [[str(k), canon_value(x)] for k, x in v.items()]}
    if isinstance(v, tuple):
        return {"t": [canon_value(x) for x in v]}
    return {"o": type(v).__name__}


def flat_real(spec, ns):
    """leaf items of the parsed namespace, key by key; config paths are reduced to null; meta keys dropped"""
    out = {}
    cd = cfg_dest(spec)
    for k, v in ns.items():
        if k.startswith("__") or ".__" in k:
            continue
        if k == cd and isinstance(v, list):
            out[k] = [None for _ in v]
        else:
            out[k] = canon_value(v)
    return out


def flat_wire(j, pre=""):
    """leaf items of a namespace printed by the driver"""
    out = {}
    for k, v in j["n"]:
        if isinstance(v, dict) and "n" in v:
            out.update(flat_wire(v, pre + k + "."))
        else:
            out[pre + k] = v
    return out


def real_run(parser, spec, case, root):
    """run one case on the real parser; returns ("ok", {dotted key: wire value}) or ("error", message)"""
    from jsonargparse import ArgumentError

    dcf = os.path.join(root, "dcf")
    for name in os.listdir(dcf):
        os.unlink(os.path.join(dcf, name))
    for name, tree in case.get("files", {}).items():
        with open(os.path.join(dcf, name), "w") as f:
            f.write("" if tree is None else json.dumps(tree))
    tmpn = [0]

    def cfg_file(tree):
        tmpn[0] += 1
        path = os.path.join(root, "cfg", "c%d.json" % tmpn[0])
        with open(path, "w") as f:
            f.write(json.dumps(tree))
        return path

    env = {}
    ec = case.get("env_cfg")
    cd = cfg_dest(spec)
    if ec is not None and cd is not None:
        env[env_name(spec, cd)] = cfg_file(ec["tree"]) if ec["via"] == "file" else json.dumps(ec["tree"])
    for dest, v in case.get("env_vars", {}).items():
        env[env_name(spec, dest)] = render(v, arg_of(spec, dest)["type"])
    argv = []
    for it in case.get("argv", []):
        if it["t"] == "cfg":
            val = cfg_file(it["tree"]) if it["via"] == "file" else json.dumps(it["tree"])
            opt = "--" + it["k"]
        else:
            typ = (arg_of(spec, it["k"]) or {"type": "int"})["type"]
            if it["t"] == "set":
                opt, val = "--" + it["k"], render(it["v"], typ)
            elif it["t"] == "append":
                opt, val = "--" + it["k"] + "+", json.dumps(it["v"])
            else:
                opt, val = "--" + it["k"] + "." + it["i"], json.dumps(it["v"])
        if it.get("form") == "sp" and not val.startswith("-"):
            argv += [opt, val]
        else:
            argv.append(opt + "=" + val)
    method = case["method"]
    # parse_env(mapping): the process environment holds DIFFERENT values for the same variables; they must play no role
    decoys = {}
    if method == "env_dict":
        for dest, v in case.get("decoy_vars", {}).items():
            decoys[env_name(spec, dest)] = render(v, arg_of(spec, dest)["type"])
        if case.get("decoy_cfg") is not None and cd is not None:
            decoys[env_name(spec, cd)] = json.dumps(case["decoy_cfg"])
    defaults, env_arg = call_of(case)
    kw = {}
    if not defaults:
        kw["defaults"] = False
    kwe = dict(kw)
    if env_arg is not None:
        kwe["env"] = env_arg
    saved = {k: os.environ.get(k) for k in list(env) + list(decoys)}
    try:
        if method != "env_dict":
            os.environ.update(env)
        else:
            os.environ.update(decoys)
        try:
            if method == "args":
                ns = parser.parse_args(argv, **kwe)
            elif method == "env":
                ns = parser.parse_env(**kw)
            elif method == "env_dict":
                ns = parser.parse_env(dict(env), **kw)
            elif method == "string":
                ns = parser.parse_string(json.dumps(case["tree"]), **kwe)
            elif method == "path":
                ns = parser.parse_path(cfg_file(case["tree"]), **kwe)
            elif method == "object":
                ns = parser.parse_object(copy.deepcopy(case["tree"]), **kwe)
            else:
                raise MachineryError("unknown method " + method)
            return "ok", flat_real(spec, ns)
        except ArgumentError as ex:
            return "error", str(ex).split("\n")[0][:200]
        except (SystemExit, TypeError, KeyError, ValueError, AttributeError, IndexError) as ex:
            return "error", "%s: %s" % (type(ex).__name__, str(ex)[:200])
    finally:
        for k, v in saved.items():
            if v is None:
                os.environ.pop(k, None)
            else:
                os.environ[k] = v
        for name in os.listdir(os.path.join(root, "cfg")):
            os.unlink(os.path.join(root, "cfg", name))


# ---------------------------------------------------------------- the same case for the model
def model_line(spec, case):
    cd = cfg_dest(spec)
    env = []
    if case.get("env_cfg") is not None and cd is not None:
        env.append([env_name(spec, cd), enc(case["env_cfg"]["tree"])])
    for dest, v in case.get("env_vars", {}).items():
        env.append([env_name(spec, dest), enc(v)])
    argv = []
    for it in case.get("argv", []):
        k = it["k"].split(".")
        if it["t"] == "cfg":
            argv.append({"t": "cfg", "k": k, "tree": enc(it["tree"])})
        elif it["t"] == "item":
            argv.append({"t": "item", "k": k, "i": it["i"], "v": enc(it["v"])})
        else:
            argv.append({"t": it["t"], "k": k, "v": enc(it["v"])})
    import fnmatch

    pats = spec.get("dcf_patterns", DCF_PATTERNS)
    names = sorted(case.get("files", {}), reverse=True)  # the match relation, deliberately NOT in sorted order
    glob_tab = [[pat, [n for n in names if fnmatch.fnmatchcase(n, pat)]] for pat in dict.fromkeys(pats)]
    contents = [[n, None if case["files"][n] is None else enc(case["files"][n])] for n in names]
    method = {"env_dict": "env", "path": "string"}.get(case["method"], case["method"])
    defaults, env_arg = call_of(case)
    call = {"defaults": defaults, "env_arg": env_arg, "environ": None}
    if case["method"] == "env_dict":  # the mapping is given to the call; os.environ holds the decoys
        call["environ"] = env
        env = [[env_name(spec, d), enc(v)] for d, v in case.get("decoy_vars", {}).items()]
        if case.get("decoy_cfg") is not None and cd is not None:
            env.append([env_name(spec, cd), enc(case["decoy_cfg"])])
    line = {"parser": model_parser(spec), "patterns": pats, "glob": glob_tab, "contents": contents, "env": env, "argv": argv,
            "method": method, "call": call}
    if method in ("string", "object"):
        line["tree"] = enc(case["tree"])
    return line


# ---------------------------------------------------------------- THE ORACLE: reference fold (independent of the model)
def ref_fold(assigns):
    """left fold of ('set'|'append'|'item', key, value) over a flat dict"""
    cfg = {}
    for op, k, v in assigns:
        if op == "set":
            cfg[k] = copy.deepcopy(v)
        elif op == "append":
            prev = cfg.get(k)  # the list built so far; a previous scalar (0 and "" included) counts as a one-element list
            prev = prev if isinstance(prev, list) else [] if prev is None or isinstance(prev, dict) else [prev]
            cfg[k] = prev + (v if isinstance(v, list) else [v])
        elif op == "note":  # the config argument's own list gets one more entry (nothing is promoted there)
            cfg[k] = (cfg[k] if isinstance(cfg.get(k), list) else []) + [None]
        else:
            cfg[k] = {**(cfg[k] if isinstance(cfg.get(k), dict) else {}), v[0]: v[1]}
    return cfg


def flatten_tree(spec, tree, pre=""):
    """assignments of a config mapping: plain keys, then `key+` keys; a dict below a key that is no argument is a section"""
    sets, apps = [], []
    for k, v in tree.items():
        full = pre + k
        if full.endswith("+") and arg_of(spec, full[:-1]) is not None:
            apps.append(("append", full[:-1], v))
        elif arg_of(spec, full) is not None or not isinstance(v, dict):
            sets.append(("set", full, v))
        else:
            s2, a2 = flatten_tree(spec, v, full + ".")
            sets += s2
            apps += a2
    return (sets, apps) if pre else sets + apps


def flatten_sources(spec, case, env_append_on_empty=False):
    """documented order: defaults, default config files as listed, env config, env variables, command line left to right"""
    cd = cfg_dest(spec)
    out = []
    defaults, _ = call_of(case)
    if defaults:
        for a in spec["args"]:
            out.append(("set", a["dest"], a.get("default")))
        for name in present_files(spec, case):
            if case["files"][name] is not None:
                out += flatten_tree(spec, case["files"][name])
    method = case["method"]
    env_on = env_is_read(spec, case)
    if env_on:
        if case.get("env_cfg") is not None and cd is not None:
            sub = flatten_tree(spec, case["env_cfg"]["tree"])
            if env_append_on_empty:  # behaviour of the open finding: the env config is merged into an EMPTY namespace first
                sub = [(op, k, v) for op, k, v in ref_fold_items(sub)]
            out += sub
            out.append(("note", cd, None))
        for a in spec["args"]:  # one variable per argument
            if a["dest"] in case.get("env_vars", {}):
                out.append(("set", a["dest"], case["env_vars"][a["dest"]]))
    if method == "args":
        for it in case.get("argv", []):
            if it["t"] == "cfg":
                out += flatten_tree(spec, it["tree"])
                out.append(("note", it["k"], None))
            elif it["t"] == "item":
                out.append(("item", it["k"], (it["i"], it["v"])))
            else:
                out.append((it["t"], it["k"], it["v"]))
    elif method in ("string", "path", "object"):
        out += flatten_tree(spec, case["tree"])
    return out


def ref_fold_items(assigns):
    return [("set", k, v) for k, v in ref_fold(assigns).items()]


def has_env_append(spec, case):
    """signature of the open finding: the config given in the environment variable holds a `key+` entry and is read"""
    if case.get("env_cfg") is None or cfg_dest(spec) is None:
        return False
    return env_is_read(spec, case) and any(op == "append" for op, _, _ in flatten_tree(spec, case["env_cfg"]["tree"]))


def string_nodefaults(case):
    """signature of the open finding: parse_string / parse_path with defaults=False and without env=True"""
    return case["method"] in ("string", "path") and not case.get("defaults", True) and case.get("env_arg") is not True


def n_defaults(spec, case):
    return len(spec["args"]) if case.get("defaults", True) else 0


def well_formed(spec, case):
    """every key of every source is an argument of the parser (the property speaks about those)"""
    for op, k, _ in flatten_sources(spec, case)[n_defaults(spec, case):]:
        a = arg_of(spec, k)
        if a is None:
            return False
        if op == "note" and a["type"] != "config":
            return False
        if op == "append" and a["type"] not in APPENDABLE:
            return False
        if op == "item" and a["type"] != "dict":
            return False
        if op == "set" and a["type"] == "config":
            return False
    return True


def oracle(spec, case, real):
    """None if the property holds on this case, else (id of the known finding whose signature and behaviour it matches | False, description)"""
    if not well_formed(spec, case):
        return None
    status, got = real
    want = {k: enc(v) for k, v in ref_fold(flatten_sources(spec, case)).items()}
    if status == "ok" and got == want:
        return None
    if string_nodefaults(case):
        # behaviour of the open finding: nothing is merged, the content is returned as loaded; a `key+` entry is then an unknown key
        tree_asg = flatten_tree(spec, case["tree"])
        if any(op == "append" for op, _, _ in tree_asg):
            if status != "ok":
                return FINDING_STRING_NODEFAULTS, "parse_string(defaults=False) rejects a key+ entry instead of appending to the empty list"
        elif status == "ok" and got == {k: enc(v) for k, v in ref_fold(tree_asg).items()}:
            return FINDING_STRING_NODEFAULTS, "parse_string(defaults=False) ignores the environment although default_env is on"
    if has_env_append(spec, case):
        want2 = {k: enc(v) for k, v in ref_fold(flatten_sources(spec, case, env_append_on_empty=True)).items()}
        if status == "ok" and got == want2:
            return FINDING_ENV_APPEND, "key+ in the environment config appended to an empty list instead of the list built so far"
    if status != "ok":
        return False, "parse of well-formed sources failed: %s" % got
    bad = sorted(k for k in set(got) | set(want) if got.get(k) != want.get(k))
    return False, "keys %s: got %s, reference fold gives %s" % (bad, [got.get(k) for k in bad], [want.get(k) for k in bad])


# ---------------------------------------------------------------- generators
def gen_value(rng, typ, small=False):
    if typ == "int":
        return rng.randint(0, 30)
    if typ == "str":
        return "s%d" % rng.randint(0, 9)
    if typ == "ilist":
        return rng.choice([0, 0, rng.randint(1, 30)]) if rng.random() < 0.55 else gen_value(rng, "list", small)
    if typ == "olist":
        return None if rng.random() < 0.25 else gen_value(rng, "list", small)
    if typ == "list":
        return [rng.randint(0, 30) for _ in range(rng.choice([0, 1, 1, 2, 3] if not small else [1, 1, 2]))]
    if typ == "dict":
        ks = rng.sample(ITEM_NAMES, rng.choice([0, 1, 1, 2, 3]))
        return {k: rng.randint(0, 30) for k in ks}
    raise MachineryError(typ)


# (default_env argument, JSONARGPARSE_DEFAULT_ENV at construction): cycled so that every run sees every combination
ENV_COMBOS = [(True, None), (False, None), (False, "true"), (True, "false"), (False, "TRUE"), (True, "False"), (True, "yes"),
              (False, ""), (True, "true"), (False, "false"), (False, "yes"), (True, "")]


def gen_spec(rng, idx=0):
    n = rng.randint(3, 6)
    dests = rng.sample(DEST_POOL, n)
    args = []
    for d in dests:
        t = rng.choice(TYPES)
        if d.endswith(".l") or d == "l":
            t = "list" if rng.random() < 0.8 else t
        if d.endswith(".d") or d == "d":
            t = "dict" if rng.random() < 0.8 else t
        a = {"dest": d, "type": t}
        if rng.random() < 0.8:
            a["default"] = gen_value(rng, t)
        args.append(a)
    if rng.random() < 0.92:
        args.insert(rng.randint(0, len(args)), {"dest": rng.choice(["cfg", "cfg", "config"]), "type": "config"})
    # at least one list and one dict argument in most parsers
    kinds = {a["type"] for a in args}
    for want, d in (("list", "ll"), ("dict", "dd")):
        if want not in kinds and rng.random() < 0.8:
            args.append({"dest": d, "type": want, "default": gen_value(rng, want)})
    spec = {
        "args": args,
        "env_prefix": rng.choice(["APP", "APP", "my-app", "x1", None]),
        "default_env": ENV_COMBOS[idx % len(ENV_COMBOS)][0],
        "os_default_env": ENV_COMBOS[idx % len(ENV_COMBOS)][1],
        "dcf_patterns": DCF_PATTERN_POOL[(idx + 1) % len(DCF_PATTERN_POOL)],
    }
    # unprefixed variables must not collide with what the process environment already holds
    if spec["env_prefix"] is None and any(env_name(spec, a["dest"]) in os.environ for a in args):
        spec["env_prefix"] = "APP"
    return spec


def gen_tree(rng, spec, focus, allow_append=True, unknown=False, null_p=0.04):
    """a config mapping over some of the focus keys; nested or dotted spelling"""
    style = rng.choice(["nested", "nested", "dotted"])
    tree = {}
    ks = [d for d in focus if rng.random() < 0.6] or [rng.choice(focus)]
    rng.shuffle(ks)
    for d in ks:
        a = arg_of(spec, d)
        key, v = d, gen_value(rng, a["type"])
        if a["type"] in APPENDABLE and allow_append and rng.random() < 0.45:
            key = d + "+"
            v = rng.choice([v, rng.randint(0, 30)]) if v else rng.randint(0, 30)
        elif rng.random() < null_p:
            v = None
        put(tree, key, v, style)
        if a["type"] in APPENDABLE and key == d and allow_append and rng.random() < 0.08:
            put(tree, d + "+", [rng.randint(0, 30)], style)  # both `k` and `k+` in one mapping
    if unknown:
        put(tree, rng.choice(["zz", "g.zz", "n+", "zz+"]) if rng.random() < 0.7 else ks[0] + "x", 1, style)
    return tree


def put(tree, key, v, style):
    if style == "dotted" or "." not in key:
        tree[key] = v
        return
    cur = tree
    segs = key.split(".")
    for s in segs[:-1]:
        nxt = cur.get(s)
        if not isinstance(nxt, dict):
            nxt = {}
            cur[s] = nxt
        cur = nxt
    cur[segs[-1]] = v


def gen_case(rng, spec, mask, method, n_argv, bad=False):
    """mask bits: 0 z.json, 1 m1.json, 2 m2.json, 3 a.json, 4 env config, 5 env variables"""
    real_args = [a for a in spec["args"] if a["type"] != "config"]
    cd = cfg_dest(spec)
    focus = [a["dest"] for a in rng.sample(real_args, min(len(real_args), rng.choice([1, 2, 2, 3])))]
    if rng.random() < 0.15:
        focus = [a["dest"] for a in real_args]
    case = {"method": method, "files": {}, "env_vars": {}, "argv": []}
    # arguments of the call
    if rng.random() < 0.12:
        case["defaults"] = False
    if method not in ("env", "env_dict") and rng.random() < 0.3:
        case["env_arg"] = rng.random() < 0.5
    bad_at = rng.choice(["file", "argv", "tree"]) if bad else None
    for bit, name in enumerate(DCF_ORDER):
        if mask >> bit & 1:
            if rng.random() < 0.05:
                case["files"][name] = None  # an empty file is skipped
            else:
                case["files"][name] = gen_tree(rng, spec, focus, unknown=(bad_at == "file" and rng.random() < 0.5))
    if mask >> 4 & 1 and cd is not None:
        case["env_cfg"] = {"tree": gen_tree(rng, spec, focus, allow_append=rng.random() < 0.25), "via": rng.choice(["string", "file"])}
    if mask >> 5 & 1:
        for d in focus:
            if rng.random() < 0.7:
                case["env_vars"][d] = gen_value(rng, arg_of(spec, d)["type"])
                if arg_of(spec, d)["type"] == "str" and rng.random() < 0.2:
                    case["env_vars"][d] = ""  # a variable that is set to the empty string is an assignment of ""
    if method == "env_dict":  # what os.environ holds while the mapping is given explicitly
        case["decoy_vars"] = {d: gen_value(rng, arg_of(spec, d)["type"]) for d in focus if rng.random() < 0.8}
        if cd is not None and rng.random() < 0.5:
            case["decoy_cfg"] = gen_tree(rng, spec, focus, allow_append=False)
    if method == "args":
        for _ in range(n_argv):
            d = rng.choice(focus)
            a = arg_of(spec, d)
            r = rng.random()
            form = rng.choice(["eq", "sp"])
            if cd is not None and r < 0.22:
                case["argv"].append({"t": "cfg", "k": cd, "tree": gen_tree(rng, spec, focus), "via": rng.choice(["string", "file"]), "form": form})
            elif a["type"] in APPENDABLE and r < 0.65:
                v = gen_value(rng, "list", small=True) if rng.random() < 0.4 else rng.randint(0, 30)
                case["argv"].append({"t": "append", "k": d, "v": v, "form": form})
            elif a["type"] == "dict" and r < 0.65:
                case["argv"].append({"t": "item", "k": d, "i": rng.choice(ITEM_NAMES), "v": rng.randint(0, 30), "form": form})
            else:
                case["argv"].append({"t": "set", "k": d, "v": gen_value(rng, a["type"]), "form": form})
        if bad_at == "argv":
            case["argv"].insert(rng.randint(0, len(case["argv"])), rng.choice([
                {"t": "set", "k": "zz", "v": 1, "form": "eq"},
                {"t": "append", "k": next((a["dest"] for a in real_args if a["type"] not in APPENDABLE), "zz"), "v": 1, "form": "eq"},
            ]))
    elif method in ("string", "path", "object"):
        case["tree"] = gen_tree(rng, spec, focus, unknown=(bad_at in ("tree", "argv")))
    return case


def source_count(spec, case):
    """how many sources assign the most contested key (>= 2: precedence is exercised)"""
    per = {}
    for op, k, _ in flatten_sources(spec, case)[n_defaults(spec, case):]:
        per[k] = per.get(k, 0) + 1
    return 1 + max(per.values()) if per else 1


# ---------------------------------------------------------------- shrinking
def shrink_case(case, still_bad):
    cur = copy.deepcopy(case)
    changed = True
    while changed:
        changed = False
        cands = []
        for name in list(cur.get("files", {})):
            c = copy.deepcopy(cur)
            del c["files"][name]
            cands.append(c)
        if cur.get("env_cfg") is not None:
            c = copy.deepcopy(cur)
            c["env_cfg"] = None
            cands.append(c)
        for d in list(cur.get("env_vars", {})):
            c = copy.deepcopy(cur)
            del c["env_vars"][d]
            cands.append(c)
        for d in list(cur.get("decoy_vars", {})):
            c = copy.deepcopy(cur)
            del c["decoy_vars"][d]
            cands.append(c)
        for field in ("decoy_cfg", "env_arg", "defaults"):
            if field in cur and cur[field] is not None:
                c = copy.deepcopy(cur)
                del c[field]
                cands.append(c)
        for i in range(len(cur.get("argv", []))):
            c = copy.deepcopy(cur)
            del c["argv"][i]
            cands.append(c)
        for holder in [cur.get("files", {})] + [x for x in [cur.get("env_cfg")] if x] + [it for it in cur.get("argv", []) if it["t"] == "cfg"] + ([cur] if "tree" in cur else []):
            trees = holder.items() if holder is cur.get("files") else [("tree", holder.get("tree"))]
            for name, tree in list(trees):
                if isinstance(tree, dict) and len(tree) > 1:
                    for k in list(tree):
                        c = copy.deepcopy(cur)
                        _drop_key(c, cur, holder, name, k)
                        cands.append(c)
        for c in cands:
            try:
                if still_bad(c):
                    cur = c
                    changed = True
                    break
            except Exception:  # noqa: BLE001 - a candidate that cannot be run is not a smaller failing case
                continue
    return cur


def _drop_key(c, cur, holder, name, k):
    """delete top-level key k of the tree `name` of the holder corresponding to `holder` inside the copy c"""
    if holder is cur.get("files"):
        del c["files"][name][k]
    elif holder is cur.get("env_cfg"):
        del c["env_cfg"]["tree"][k]
    elif holder is cur:
        del c["tree"][k]
    else:
        idx = [i for i, it in enumerate(cur["argv"]) if it is holder][0]
        del c["argv"][idx]["tree"][k]


# ---------------------------------------------------------------- the check
class Bench:
    """temp dir + cache of real parsers per spec"""

    def __init__(self):
        self.root = tempfile.mkdtemp(prefix="c04-")
        os.makedirs(os.path.join(self.root, "dcf"))
        os.makedirs(os.path.join(self.root, "cfg"))
        atexit.register(shutil.rmtree, self.root, True)
        self.parsers = {}

    def parser(self, spec):
        key = json.dumps(spec, sort_keys=True)
        if key not in self.parsers:
            self.parsers[key] = build_parser(spec, self.root)
        return self.parsers[key]

    def run(self, spec, case):
        return real_run(self.parser(spec), spec, case, self.root)


def judge(ctx: Ctx, bench, spec, case, real, origin):
    """property oracle on one case; returns True when a new violation was recorded"""
    res = oracle(spec, case, real)
    if res is None:
        return False
    known, desc = res
    if known and ctx.is_open(known):
        ctx.known(known, desc)
        return False

    def still(c):
        r = oracle(spec, c, bench.run(spec, c))
        return r is not None and not (r[0] and ctx.is_open(r[0]))

    small = shrink_case(case, still)
    r2 = oracle(spec, small, bench.run(spec, small))
    ctx.violation("the parsed value differs from the fold of the sources in the documented order: %s" % (r2[1] if r2 else desc),
                  {"kind": "oracle", "origin": origin, "spec": spec, "case": small, "detail": r2[1] if r2 else desc})
    return True


def compare_model(real, mod):
    """None when model and real agree, else a description"""
    status, got = real
    if "model" not in mod:
        return "driver: %s" % json.dumps(mod)[:300]
    if status != "ok":
        return None if not mod["ok"] else "real parse fails (%s), model accepts" % got
    if not mod["ok"]:
        return "real parse succeeds, model rejects"
    want = flat_wire(mod["model"])
    if got == want:
        return None
    bad = sorted(k for k in set(got) | set(want) if got.get(k) != want.get(k))
    return "keys %s: real %s, model %s" % (bad, [got.get(k) for k in bad], [want.get(k) for k in bad])


def correspond(ctx: Ctx, bench, pairs, reals=None, outputs=None):
    """pairs: [(spec, case)]; returns [(index, description)] of disagreements; driver outputs are appended to `outputs`"""
    if not pairs:
        return []
    try:
        model = ctx.driver("Sources", [model_line(s, c) for s, c in pairs], timeout=1800)
    except MachineryError as ex:
        if ctx.lean_ok:
            raise
        ctx.tie_break("correspondence Sources not runnable (model does not build)", str(ex))
        return []
    if outputs is not None:
        outputs.extend(model)
    bad = []
    for i, ((spec, case), mod) in enumerate(zip(pairs, model)):
        real = reals[i] if reals is not None else bench.run(spec, case)
        d = compare_model(real, mod)
        if d is not None:
            bad.append((i, d))
    return bad


# ---------------------------------------------------------------- exhaustive small scope
EXH_SPEC = {
    "args": [
        {"dest": "n", "type": "int", "default": 1},
        {"dest": "g.l", "type": "list", "default": [0]},
        {"dest": "cfg", "type": "config"},
        {"dest": "d", "type": "dict", "default": {"z": 0}},
    ],
    "env_prefix": "APP", "default_env": True, "os_default_env": None,
}
EXH_FILES = {"z.json": {"n": 2, "g": {"l+": [2]}}, "m1.json": {"g": {"l": [3]}, "d": {"a": 3}}, "m2.json": {"n": 4, "g.l+": 4}, "a.json": {"d": {"b": 5}, "g": {"l+": [5]}}}
EXH_ENV_CFG = {"tree": {"n": 6, "d": {"c": 6}}, "via": "string"}
EXH_ENV_VARS = {"n": 7, "g.l": [7]}
EXH_ITEMS = [
    {"t": "set", "k": "n", "v": 8, "form": "eq"},
    {"t": "set", "k": "g.l", "v": [8], "form": "sp"},
    {"t": "append", "k": "g.l", "v": 9, "form": "eq"},
    {"t": "append", "k": "g.l", "v": [10, 11], "form": "sp"},
    {"t": "item", "k": "d", "i": "a", "v": 12, "form": "eq"},
    {"t": "set", "k": "d", "v": {"e": 13}, "form": "eq"},
    {"t": "cfg", "k": "cfg", "tree": {"n": 14, "g": {"l+": [14]}}, "via": "string", "form": "eq"},
    {"t": "cfg", "k": "cfg", "tree": {"g.l": [15], "d": {"f": 15}}, "via": "file", "form": "sp"},
]


def exhaustive_cases(masks, max_len):
    out = []
    for mask in masks:
        base = {"files": {name: EXH_FILES[name] for bit, name in enumerate(DCF_ORDER) if mask >> bit & 1}, "env_vars": {}}
        if mask >> 4 & 1:
            base["env_cfg"] = EXH_ENV_CFG
        if mask >> 5 & 1:
            base["env_vars"] = EXH_ENV_VARS
        for n in range(max_len + 1):
            for combo in itertools.product(EXH_ITEMS, repeat=n):
                c = copy.deepcopy(base)
                c["method"] = "args"
                c["argv"] = [dict(it) for it in combo]
                out.append((EXH_SPEC, c))
        for m, tree in (("env", None), ("string", {"n": 16, "g": {"l+": [16]}, "d": {"g": 16}}), ("object", {"g.l": [17]})):
            c = copy.deepcopy(base)
            c["method"] = m
            c["argv"] = []
            if tree is not None:
                c["tree"] = tree
            out.append((EXH_SPEC, c))
    return out


CORPUS_SPEC_Q = {
    "args": [
        {"dest": "cfg", "type": "config"},
        {"dest": "n", "type": "int", "default": 1},
        {"dest": "g.l", "type": "list", "default": [0]},
        {"dest": "g.o", "type": "int"},
        {"dest": "r", "type": "str"},
    ],
    "env_prefix": "APP", "default_env": True, "os_default_env": None,
}


def run(ctx: Ctx):
    repo_python_path()
    ctx.rule = ("(parser spec, sources, method): parsers of 3-8 leaf arguments (flat / dotted destinations; int, str, List[int], Dict[str,int]; optional "
                "ActionConfigFile argument; env prefix; default_env x JSONARGPARSE_DEFAULT_ENV); sources = every subset of {4 default config file slots "
                "behind 3 patterns incl. a glob, env config variable (string or file), env variables} x 0-6 command line items (--k=v, --k v, --k+=v, "
                "--k.item=v, --cfg file, --cfg string; k+ keys, nulls, nested or dotted keys inside configs) x {parse_args, parse_env, parse_env(dict), "
                "parse_string, parse_path, parse_object} x arguments of the call (defaults=False, env=True/False, parse_env(mapping) incl. the EMPTY "
                "mapping while os.environ holds other values for the same variables) x six lists of default_config_files entries "
                "(globs, listed != alphabetical order, files reached by two entries; the MODEL orders the files from the match relation); each case: real vs Lean model key by key AND real vs independent ref_fold; "
                "non-trivial = some key is assigned by >= 2 sources besides its default; distinct by canonical JSON of (spec, case).  PARSER TREES: "
                "(tree spec, history): root (1-3 leaf arguments, optional config argument) with 1-2 subcommands per parser down to 1-3 levels, built in "
                "level order, constructor default_env per parser x JSONARGPARSE_DEFAULT_ENV at construction; history = 2-5 parses on the SAME objects "
                "(parse_args along a random path with 0-3 items per level, env variables for the parsers on and off the path, defaults=False, env=True/False, "
                "root --cfg with sections of the inner levels, parse_object with nested sections) interleaved with assignments to default_env of the root (70%) "
                "or an inner parser under a value of JSONARGPARSE_DEFAULT_ENV; each parse: real vs independent per-level fold, real vs Lean parseTree "
                "(flags from the model's setter); non-trivial there = a level below the root has an environment variable on the path and some parser reads the environment")
    ctx.assumptions = [
        "values are generated in normal form (ints, strings at str-typed keys, int lists, str->int dicts): type adaptation is C02's subject",
        "a config mapping is flattened as its plain keys followed by its `key+` keys (a mapping has no order; this is the order merge_config implements)",
        "destinations are pairwise divergent (no argument's destination is a prefix of another's) and avoid Namespace method names (C11)",
        "argparse tokenisation, fnmatch and expanduser are outside the model: the match relation (which existing files an entry of "
        "default_config_files matches, given unsorted) is an input fact; their order is computed by the model (defaultConfigFiles)",
    ]
    ctx.lean_build(extractors=["sources_order"])
    bench = Bench()

    from ..lib import corpus as corpus_mod

    corpus = corpus_mod.load(ctx.prop)
    pairs = [(c["spec"], c["case"]) for c in corpus if "history" not in c]
    tree_corpus = [(c["spec"], c["history"]) for c in corpus if "history" in c]
    n_corpus = len(pairs)

    # --- generated: every subset of sources, for every method, per parser --------------------------
    n_specs = ctx.budget(13, 121) * (2 if ctx.search_boost > 1 else 1)
    per_spec = ctx.budget(260, 500) * (2 if ctx.search_boost > 1 else 1)
    methods = ["args", "args", "args", "args", "env", "env_dict", "string", "path", "object", "args"]
    specs = [CORPUS_SPEC_Q] + [gen_spec(ctx.rng, i) for i in range(n_specs - 1)]
    for spec in specs:
        masks = list(range(64))
        ctx.rng.shuffle(masks)
        for i in range(per_spec):
            mask = masks[i % 64]
            method = methods[(i // 64 + i) % len(methods)]
            n_argv = ctx.rng.randint(0, 6)
            bad = ctx.rng.random() < 0.04
            pairs.append((spec, gen_case(ctx.rng, spec, mask, method, n_argv, bad=bad)))

    # --- exhaustive small scope: every subset of the six sources x every item sequence up to a length ---
    if ctx.thorough:
        exh = exhaustive_cases(range(64), 2) + exhaustive_cases([0, 21, 42, 63, 48, 15, 37, 26], 3)
    else:
        exh = exhaustive_cases(range(64), 1) + exhaustive_cases([0, 63, 21, 42], 2)
    ctx.extra["exhaustive_small_scope"] = {"cases": len(exh), "sources": "all 64 subsets of {z, m1, m2, a, env config, env variables}",
                                           "item_alphabet": len(EXH_ITEMS), "max_items": 3 if ctx.thorough else 2}
    pairs += exh

    # --- run the real implementation once per case, snapshot immediately ----------------------------
    reals = []
    for spec, case in pairs:
        reals.append(bench.run(spec, case))
        ctx.count()
        ctx.hist("method", case["method"])
        ctx.hist("call", "defaults=%s env=%s" % (case.get("defaults", True), case.get("env_arg")))
        ctx.hist("dcf_entries", ",".join(spec.get("dcf_patterns", DCF_PATTERNS)))
        ctx.hist("default_config_files", len(present_files(spec, case)))
        ctx.hist("argv_items", len(case.get("argv", [])))
        ctx.hist("env", ("cfg+" if case.get("env_cfg") else "") + ("vars" if case.get("env_vars") else "") or "none")
        for it in case.get("argv", []):
            ctx.hist("argv_kind", it["t"] + ("/" + it.get("via", "") if it["t"] == "cfg" else ""))
        n = source_count(spec, case)
        ctx.hist("sources_on_one_key", min(n, 6))
        if n >= 3 and reals[-1][0] == "ok":
            ctx.nontrivial(json.dumps([spec, case], sort_keys=True))
        ctx.hist("outcome", reals[-1][0])
    for spec, case in pairs[n_corpus : n_corpus + 3]:
        ctx.sample({"spec": spec, "case": case})

    # --- correspondence -------------------------------------------------------------------------
    outputs = []
    bad = correspond(ctx, bench, pairs, reals, outputs)
    # the theorems apply to the cases that satisfy their hypotheses: count them, and evaluate C04_order on them in Lean
    in_domain = guarded = 0
    for (spec, case), mod in zip(pairs, outputs):
        if not mod.get("domain"):
            continue
        in_domain += 1
        if not mod.get("guard"):
            continue
        guarded += 1
        cd = cfg_dest(spec)
        m, r = flat_wire(mod["model"]), flat_wire(mod["ref"])
        if any(m.get(k) != r.get(k) for k in set(m) | set(r) if k != cd):
            ctx.tie_break("Lean evaluation of the model differs from refFold inside the domain of C04_order_partial",
                          json.dumps({"spec": spec, "case": case}, ensure_ascii=True)[:1500])
            break
    ctx.extra["cases_in_theorem_domain"] = in_domain
    ctx.extra["cases_in_domain_and_guard"] = guarded
    ctx.extra["well_formed_but_outside_domain"] = sum(
        1 for (sp, c), mod in zip(pairs, outputs) if well_formed(sp, c) and not mod.get("domain"))
    for i, desc in bad[:3]:
        spec, case = pairs[i]

        def still(c, spec=spec):
            return bool(correspond(ctx, bench, [(spec, c)]))

        try:
            small = shrink_case(case, still)
        except Exception:  # noqa: BLE001
            small = case
        ctx.tie_break("correspondence Sources (model pipeline vs jsonargparse) disagrees",
                      json.dumps({"spec": spec, "case": small, "why": desc}, ensure_ascii=True)[:1800])
    ctx.extra["correspondence_disagreements"] = len(bad)

    # --- oracle -----------------------------------------------------------------------------------
    new = 0
    for i, ((spec, case), real) in enumerate(zip(pairs, reals)):
        if new >= 3:
            break
        if judge(ctx, bench, spec, case, real, "corpus" if i < n_corpus else "generated"):
            new += 1
    # a broken tie: look harder around the disagreeing inputs
    if ctx.search_boost > 1:
        for i, _ in bad[:20]:
            spec, case = pairs[i]
            if new >= 3:
                break
            if judge(ctx, bench, spec, case, bench.run(spec, case), "neighbourhood of a correspondence disagreement"):
                new += 1

    # --- subcommand levels and the default_env switch: histories on one parser tree -----------------------
    run_trees(ctx, bench, tree_corpus, new)

    # --- open findings ------------------------------------------------------------------------------
    from . import c04_tree as T

    for f in ctx.open_findings():
        w = f["witness"]
        ctx.count()
        if "history" in w:
            still = any(T.oracle(w["spec"], w["history"], i, real, flags) is not None
                        for i, real, flags in T.run_history(w["spec"], w["history"], bench.root))
        else:
            still = oracle(w["spec"], w["case"], bench.run(w["spec"], w["case"])) is not None
        if still:
            ctx.known(f["id"], f["description"])
        else:
            ctx.stale_findings.append(f["id"])
    ctx.extra["cases"] = len(pairs)
    ctx.extra["parsers"] = len(specs)
    ctx.extra["well_formed_cases"] = sum(1 for s, c in pairs if well_formed(s, c))


def run_trees(ctx: Ctx, bench, tree_corpus, new):
    """histories on parser trees with subcommands: real vs independent fold (oracle) and real vs Lean model (`parseTree`)"""
    from . import c04_tree as T

    n_specs = ctx.budget(30, 150) * (2 if ctx.search_boost > 1 else 1)
    per_spec = ctx.budget(6, 12)
    work = list(tree_corpus)
    for s in range(n_specs):
        spec = T.gen_tree_spec(ctx.rng, s)
        for _ in range(per_spec):
            work.append((spec, T.gen_history(ctx.rng, spec)))
    runs = []  # (spec, hist, step, real, flags)
    for spec, hist in work:
        for i, real, flags in T.run_history(spec, hist, bench.root):
            case = hist[i]["case"]
            runs.append((spec, hist, i, real, flags))
            ctx.count()
            ctx.hist("tree_depth", len(case["path"]))
            ctx.hist("tree_method", case["method"] + ("/sections" if case.get("sections") else ""))
            ctx.hist("tree_subcommand_variable", "none" if not case.get("env_sub") else "chooses the last %d level(s)" % (len(case["path"]) - case["argv_depth"])
                     if "argv_depth" in case else "set, command line names the path")
            ctx.hist("tree_setters_before", min(3, sum(1 for st in hist[:i] if st["op"] == "set")))
            ctx.hist("tree_flags_along_path", "uniform" if len(set(flags)) == 1 else "mixed")
            ctx.hist("tree_call", "defaults=%s env=%s" % (case.get("defaults", True), case.get("env_arg")))
            ctx.hist("tree_outcome", real[0])
            n_env = sum(1 for full in case.get("env_vars", {}) if full.split(".")[:len(case["path"])] == case["path"][:len(full.split(".")) - 1])
            if real[0] == "ok" and len(case["path"]) >= 1 and n_env and any(flags):
                ctx.nontrivial(json.dumps([spec, hist[: i + 1]], sort_keys=True))
    for spec, hist in work[len(tree_corpus) : len(tree_corpus) + 1]:
        ctx.sample({"spec": spec, "history": hist})
    ctx.extra["tree_histories"] = len(work)
    ctx.extra["tree_parses"] = len(runs)

    # correspondence: the model's setter decides the flags, the model's levels give the values
    sel = [r for r in runs if T.in_model(r[1][r[2]]["case"]) and T.spec_in_model(r[0])]
    try:
        outs = ctx.driver("Sources", [T.model_line(spec, hist, i) for spec, hist, i, _, _ in sel], timeout=1800) if sel else []
    except MachineryError as ex:
        if ctx.lean_ok:
            raise
        ctx.tie_break("correspondence Sources (parser trees) not runnable (model does not build)", str(ex))
        outs = []
    n_bad = n_dom = 0
    for (spec, hist, i, real, flags), mod in zip(sel, outs):
        d = T.compare_model(hist[i]["case"], real, flags, mod)
        if d is not None:
            n_bad += 1
            if n_bad <= 3:
                ctx.tie_break("correspondence Sources (parser tree: setter + levels vs jsonargparse) disagrees",
                              json.dumps({"spec": spec, "history": hist[: i + 1], "why": d}, ensure_ascii=True)[:1800])
        if mod.get("domain") and mod.get("uniform") and mod.get("guard"):
            n_dom += 1
            lv, rf = [flat_wire(x) for x in mod["levels"]], [flat_wire(x) for x in mod["ref"]]
            if any(a.get(k) != r.get(k) for a, r in zip(lv, rf) for k in set(a) | set(r) if k != "cfg"):
                ctx.tie_break("Lean evaluation of parseTree differs from the per-level refFold inside the domain of C04_order_depth_partial",
                              json.dumps({"spec": spec, "history": hist[: i + 1]}, ensure_ascii=True)[:1500])
                break
    ctx.extra["tree_cases_in_model"] = len(sel)
    ctx.extra["tree_cases_in_depth_theorem_domain"] = n_dom
    ctx.extra["tree_correspondence_disagreements"] = n_bad

    # oracle
    seen_hist = set()
    for spec, hist, i, real, flags in runs:
        if new >= 3:
            break
        res = T.oracle(spec, hist, i, real, flags)
        if res is None:
            continue
        known, desc = res
        if known and ctx.is_open(known):
            ctx.known(known, desc)
            continue
        key = json.dumps([spec, hist], sort_keys=True)
        if key in seen_hist:
            continue
        seen_hist.add(key)
        small = T.shrink_history(spec, hist[: i + 1], lambda h, spec=spec: T.first_bad(ctx, spec, h, bench.root) is not None)
        fb = T.first_bad(ctx, spec, small, bench.root)
        ctx.violation("the parsed value differs from the fold of the sources in the documented order (subcommand levels): %s" % (fb[1][1] if fb else desc),
                      {"kind": "oracle-tree", "spec": spec, "history": small, "detail": fb[1][1] if fb else desc})
        new += 1


def replay(ctx: Ctx, body):
    repo_python_path()
    bench = Bench()
    r = body["replay"]
    if r.get("kind") == "oracle-tree":
        from . import c04_tree as T

        rc = 0
        for i, real, flags in T.run_history(r["spec"], r["history"], bench.root):
            res = T.oracle(r["spec"], r["history"], i, real, flags)
            print("step %d: default_env along the path %s: real result %s" % (i, flags, json.dumps(real, ensure_ascii=True)))
            print("   deviation from the reference fold:", res)
            if res is not None:
                rc = 1
        return rc
    if r.get("kind") != "oracle":
        print("nothing to replay on the real code:", json.dumps(r)[:500])
        return 1
    real = bench.run(r["spec"], r["case"])
    res = oracle(r["spec"], r["case"], real)
    print("real result:", json.dumps(real, ensure_ascii=True))
    print("sources in documented order:", json.dumps(flatten_sources(r["spec"], r["case"]), ensure_ascii=True))
    print("deviation from the reference fold:", res)
    return 1 if res is not None else 0

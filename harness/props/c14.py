"""C14 — A class_path is checked against the declared type and built from its config.

Pipeline
  1. build lean/Jap/Props/C14.lean (theorems over the model lean/Jap/Core/ClassPath.lean: all class environments).
  2. correspondence (model = Drv/ClassPath): generated class families (base, subclasses adding / overriding parameters,
     unrelated classes, abstract bases, functions returning a subclass, a class with **kwargs, nested class-typed
     parameters) are written as REAL modules of a temporary package; an argument `--opt` typed with one of the
     classes receives a sequence of sources (`--opt=Name`, `--opt <dict>`, `--opt.key=value`, `--config {...}`);
     the parse result (normalised class_path, init_args, dict_kwargs) or the error class, and the constructor-call log of
     `instantiate_classes`, are compared with the model.
  3. property oracle on the real code, independent of the model: a reference written at the level of the property
     statement (what a source means, which init_args survive a class change, defaults, required) gives the expected
     configuration or "reject"; after `instantiate_classes`: type() is exactly the named class, every spec constructed
     once, children before parents and passed as objects, attribute values, a second run builds distinct objects;
     metamorphic: every short notation of a valid spec parses to the same configuration as the explicit dict;
     List / Dict / Optional / Union-of-class parameters are checked by the oracle only (outside the model), including
     Dict[str, Base] / List[Base] arguments fed by SEVERAL sources (explicit class per key / item first, short forms later:
     every key / item must keep its own earlier class and init_args).
  4. history within one process (oracle): a module attribute named by class_path is re-pointed to a sibling class, a
     plugin module is rewritten with another signature and reloaded; the next parse must follow the CURRENT object.
  5. class instantiators registered on a parent parser and on its subcommand parser (oracle + model correspondence of the
     lookup order): the first matching one in the order own, then inherited, builds the object.
  6. open findings are replayed.
"""
from __future__ import annotations

import atexit
import contextlib
import hashlib
import importlib
import io
import json
import os
import random
import re
import shutil
import sys
import tempfile

from ..lib.common import Ctx, MachineryError, repo_python_path

MANIFEST = {
    "engine": "E10b-ClassPath",
    "technique": "Lean 4 proof over a model of the subclass branch of adapt_typehints / adapt_class_type / instantiate_classes (all class "
                 "environments, all specs, all sequences of sources) + regenerated literals and scalar-coercion table + differential correspondence "
                 "on generated class families written as real packages (single option, several options with prefix-related names over several "
                 "config sources, dataclass / Union[dataclass, class] arguments with same-named classes in other modules) + regenerated statements of "
                 "the anchored functions pinned by theorem + independent reference and constructor-log oracle",
    "text": "Theorems in lean/Jap/Props/C14.lean prove for every class environment that what is stored after any sequence of sources names an import "
            "that is a subclass of the declared type (or a function returning one) with init_args that are parameters of exactly that class and "
            "accepted by their types (C14_checked*, C14_discard for class changes, C14_checked_final for defaults), that a failing import, a "
            "non-class, a non-subclass, an unknown, ill-typed or missing required init arg, and init_args for an abstract type without class are "
            "errors (C14_rejects_*), that instantiation logs exactly one constructor call per spec, the last one of exactly the named class with "
            "exactly the init_args keys + dict_kwargs, objects passed from strictly earlier calls (C14_built_*), and that every short notation is "
            "adapted exactly like the explicit dict (C14_short*); for List[Class] / Dict[str, Class] arguments (List and Dict branches as written): "
            "every dict key is adapted with the previous value of that very key (C14_dict_per_key, C14_dict_dotted_key), every list item with "
            "the previous item of the same index iff the lengths agree (C14_list_per_item, C14_list_other_length, C14_list_prev_names_no_class, "
            "C14_list_append), every element of an accepted container is checked (C14_checked_containers) and built once, children first, in "
            "container order (C14_built_containers, C14_built_container_item); for several class-typed options in one parser the work-list "
            "walk of the merge (ActionTypeHint.discard_init_args_on_class_path_change, transcribed as discardWalk with the separator literal "
            "regenerated from the source) handles EVERY option that holds a class spec on both sides, whatever the other options are called "
            "(C14_walk_handles_every_option, C14_walk_handles_only_specs); for dataclass-typed values (Optional/List/Dict/Union members) a "
            "class_path is accepted only when it IS the import path of the declared dataclass (C14_data_class_path_identity, "
            "C14_data_rejects_other_class) and for Union[dataclass, class] in either order an accepted class_path is the dataclass itself or passed "
            "the class member's import/subclass check (C14_union_data_class); with the key-wise store of several sources and the FINAL "
            "re-adaptation of the stored value in the model (unionAll), what is finally BUILT is the named class outside the class of the open "
            "finding, stated as explicit hypothesis (C14_union_built_partial; negation witnesses C14_union_rebuilt_witness, "
            "C14_union_kind_change_rejected_witness); for containers of classes at ANY depth (List/Dict/Optional nested, adaptC by recursion over "
            "the type) every class spec of an accepted value passed the import/subclass check of ITS declared element type with init_args valid "
            "for that class (C14_checked_nested, structural induction over the type). The statements of the walk, of the module-level discard, of "
            "resolve_class_path_by_name, of the dict_kwargs handling of adapt_class_type and of the Dataclass-like class_path test are "
            "regenerated and pinned (C14_statements_pinned). The model is tied to /repo by regenerating the spec keys, the dotted-option roots "
            "and the live scalar coercion matrix into Gen/ClassPathTables (C14_tables_pinned), and by generating class families as real packages "
            "(re-exports, duplicate names, abstract bases, factories, **kwargs, nested class parameters) and comparing parse results, error classes "
            "and constructor logs with the model; the property is evaluated on the real code against a reference written from the property statement.",
    "level_note": "Trusted: Lean kernel; axioms propext/Quot.sound/Classical.choice only; the extractor; the correspondence harness and generators. "
                  "Scalar validation is abstract in the model (a literal carries its Python type; accepted pairs pinned by the regenerated table; "
                  "string-to-number conversions are C02). C14_checked assumes SigDetermined (one signature per class_path; proved for every "
                  "environment without factory functions). Open finding C14-stale-dict-kwargs (dict_kwargs survive a class change; reproduced by "
                  "the model, witness theorem). Open finding C14-dotted-sub-option-into-dict-entry (reproduced by the model, witness theorem). Outside the model: Union of "
                  "classes and List/Dict parameters nested inside a class (oracle only; top-level List/Dict arguments are in the model), protocols, generics, "
                  "Callable[..., Base], argument defaults, None given for a scalar parameter, parameters named like Namespace methods. "
                  "Several class-typed options per parser (option names that are prefixes of each other, config sources holding several options, "
                  "interleaved argv) and dataclass-typed arguments in class_path form with same-named classes in other modules are evaluated by the "
                  "oracle per option / per named class; the walk is also compared with discardWalk on the real function. Dataclass / "
                  "Union[dataclass, class] arguments (dataAll / unionAll: members in order, key-wise store, final re-adaptation, defaults) and nested "
                  "containers (adaptCAll; defaults are written into the stored configuration only under at most one container level) are compared "
                  "with the real parser on every generated case whose values have the scalar types the class member declares (ints given for bool / "
                  "str parameters are C02); dataclass fields are scalars in the model. Open findings "
                  "C14-union-dataclass-spec-rebuilt-as-class-arm (Union[Class, Dataclass] given the dataclass's exact class_path is built as the class) "
                  "and C14-union-dataclass-class-change-rejected (dataclass after class or class after dataclass between sources is rejected), both "
                  "reproduced by the model with witness theorems.",
}

F_STALE_DK = "C14-stale-dict-kwargs"

SCALARS = {
    "int": [0, 1, 2, 3, 5, 7, 11, 42],
    "str": ["x", "w", "abc", "k z", "hello"],
    "float": [0.5, 1.5, 2.5, -3.5],
    "bool": [True, False],
}
PNAMES = ["alpha", "beta", "gamma", "delta", "omega", "kappa", "sigma"]
# ordinary Python names that coincide with members of jsonargparse's Namespace class: init args under such names are stored
# unadapted (open finding C14-namespace-member-init-arg-unadapted); generated families stay away from them
CLASH_NAMES = ["items", "keys", "values", "get", "pop", "update"]
F_CLASH = "C14-namespace-member-init-arg-unadapted"
F_NONE = "C14-explicit-none-for-non-optional"
F_DEEP = "C14-dotted-sub-option-into-dict-entry"


# ---------------------------------------------------------------------------------------------
# canonical values
# ---------------------------------------------------------------------------------------------
def lit(v):
    if v is None:
        return ["NoneType", "None"]
    return [type(v).__name__, repr(v)]


def text_of(v):
    """command line text of a scalar"""
    if isinstance(v, bool):
        return "true" if v else "false"
    if v is None:
        return "null"
    return str(v)


# ---------------------------------------------------------------------------------------------
# families
# ---------------------------------------------------------------------------------------------
def P(name, ty, default="REQ"):
    """ty: ("scalar", t) | ("optScalar", t) | ("cls", C) | ("optCls", C) | ("list", C) | ("dict", C) | ("union", C)"""
    return {"name": name, "ty": list(ty), "default": default}


def gen_scalar_param(rng, name, required_p=0.2):
    t = rng.choice(["int", "str", "bool"] if name in CLASH_NAMES else list(SCALARS))
    return P(name, ("scalar", t), "REQ" if rng.random() < required_p else rng.choice(SCALARS[t]))


def gen_family(rng):
    names = list(PNAMES)
    rng.shuffle(names)
    classes = []
    # dependency hierarchy (for nested class-typed parameters)
    dep_abs = rng.random() < 0.3
    classes.append({"name": "Dep", "bases": [], "abstract": dep_abs, "kwargs": False, "params": [gen_scalar_param(rng, "rho", 0.0)]})
    classes.append({"name": "DepA", "bases": ["Dep"], "abstract": False, "kwargs": False,
                    "params": [dict(classes[0]["params"][0]), gen_scalar_param(rng, "tau", 0.3)]})
    classes.append({"name": "DepB", "bases": ["Dep"], "abstract": False, "kwargs": False,
                    "params": [dict(classes[0]["params"][0]), gen_scalar_param(rng, "phi", 0.0)]})
    # main hierarchy
    base_params = [gen_scalar_param(rng, names[0], 0.1)] + ([gen_scalar_param(rng, names[1], 0.1)] if rng.random() < 0.6 else [])
    classes.append({"name": "Base", "bases": [], "abstract": rng.random() < 0.25, "kwargs": False, "params": base_params})

    def derive(parent_params, added_names):
        ps = [dict(p) for p in parent_params]
        if ps and rng.random() < 0.4:
            i = rng.randrange(len(ps))
            if ps[i]["ty"][0] == "scalar":
                if rng.random() < 0.5:      # overridden default
                    ps[i]["default"] = rng.choice(SCALARS[ps[i]["ty"][1]])
                else:                        # overridden type
                    t = rng.choice(["int", "str", "bool"] if ps[i]["name"] in CLASH_NAMES else list(SCALARS))
                    ps[i] = P(ps[i]["name"], ("scalar", t), rng.choice(SCALARS[t]))
        if ps and rng.random() < 0.35:       # an inherited scalar parameter becomes Optional[...] here (siblings keep it plain)
            i = rng.randrange(len(ps))
            if ps[i]["ty"][0] == "scalar":
                t = ps[i]["ty"][1]
                ps[i] = P(ps[i]["name"], ("optScalar", t), None if rng.random() < 0.6 else rng.choice(SCALARS[t]))
        if ps and rng.random() < 0.2:        # a parameter dropped
            del ps[rng.randrange(len(ps))]
        for n in added_names:
            r = rng.random()
            if r < 0.55:
                ps.append(gen_scalar_param(rng, n, 0.25))
            elif r < 0.8:
                if rng.random() < 0.4:
                    # the default is an instance of a subclass: lazy_instance(DepA, ...)
                    ps.append(P(n, ("cls", "Dep"), {"lazy": rng.choice(["DepA", "DepB"]), "ia": "FILL"}))
                else:
                    ps.append(P(n, ("cls", "Dep")))
            else:
                ps.append(P(n, ("optCls", "Dep"), None))
        # python syntax: required first
        return [p for p in ps if p["default"] == "REQ"] + [p for p in ps if p["default"] != "REQ"]

    classes.append({"name": "SubA", "bases": ["Base"], "abstract": False, "kwargs": False, "params": derive(base_params, names[2:2 + rng.randint(0, 2)])})
    classes.append({"name": "SubB", "bases": ["Base"], "abstract": False, "kwargs": False, "params": derive(base_params, names[4:4 + rng.randint(0, 2)])})
    suba = classes[-2]["params"]
    classes.append({"name": "SubC", "bases": ["SubA"], "abstract": False, "kwargs": False, "params": derive(suba, names[6:6 + rng.randint(0, 1)])})
    classes.append({"name": "SubKW", "bases": ["Base"], "abstract": False, "kwargs": True, "params": [dict(p) for p in base_params]})
    # a second **kwargs class with a real parameter `retries` (a dict_kwargs key of SubKW can be a real parameter here)
    classes.append({"name": "SubKW2", "bases": ["Base"], "abstract": False, "kwargs": True,
                    "params": [dict(p) for p in base_params] + [P("retries", ("scalar", "int"), rng.choice([1, 2, 3]))]})
    classes.append({"name": "Unrel", "bases": [], "abstract": False, "kwargs": False, "params": [dict(p) for p in base_params]})
    classes.append({"name": "Owner", "bases": [], "abstract": False, "kwargs": False,
                    "params": [P("dep", ("cls", "Base")), P("count", ("scalar", "int"), rng.choice(SCALARS["int"]))]})
    # a nested class-typed parameter whose DEFAULT is an instance of a subclass of the declared type
    classes.append({"name": "Garage", "bases": [], "abstract": False, "kwargs": False,
                    "params": [P("part", ("cls", "Base"), {"lazy": rng.choice(["SubA", "SubB", "SubC", "SubKW"]), "ia": "FILL"}),
                               P("seats", ("scalar", "int"), rng.choice(SCALARS["int"]))]})
    classes.append({"name": "Holder", "bases": [], "abstract": False, "kwargs": False,
                    "params": [P("elems", ("list", "Dep"), []), P("maybe", ("optCls", "Dep"), None), P("either", ("union", "Dep"), 1), P("table", ("dict", "Dep"), {})]})
    if rng.random() < 0.8:
        # sibling subclasses share a parameter name that is Optional[T] in SubA and plain T (required or with a non-None
        # default) in Base / SubB / SubKW: a None carried across a class change must not survive
        n0 = base_params[0]["name"]
        for c in classes:
            if c["name"] == "SubA":
                for i, q in enumerate(c["params"]):
                    if q["name"] == n0 and q["ty"][0] == "scalar":
                        c["params"][i] = P(n0, ("optScalar", q["ty"][1]), None if rng.random() < 0.7 else rng.choice(SCALARS[q["ty"][1]]))
    for c in classes:
        c["params"] = [p for p in c["params"] if p["default"] == "REQ"] + [p for p in c["params"] if p["default"] != "REQ"]
    # fill the init_args of the lazy_instance defaults: every required scalar of the default's class and some others
    # (a default class that needs a class-typed argument itself is replaced by a required parameter)
    tmp_fam = {"classes": classes, "funcs": [], "others": []}
    for c in classes:
        for p in c["params"]:
            if is_lazy(p["default"]) and p["default"]["ia"] == "FILL":
                dps = cls_of(tmp_fam, p["default"]["lazy"])["params"]
                if any(q["ty"][0] != "scalar" and q["ty"][0] != "optScalar" and q["default"] == "REQ" for q in dps) or any(is_lazy(q["default"]) for q in dps):
                    p["default"] = "REQ"
                    continue
                p["default"]["ia"] = {q["name"]: rng.choice(SCALARS[q["ty"][1]]) for q in dps
                                      if q["ty"][0] in ("scalar", "optScalar") and (q["default"] == "REQ" or rng.random() < 0.5)}
    for c in classes:
        c["params"] = [p for p in c["params"] if p["default"] == "REQ"] + [p for p in c["params"] if p["default"] != "REQ"]
    funcs = [{"name": "make_suba", "ret": "SubA", "params": [dict(p) for p in suba if p["ty"][0] == "scalar"][:2]},
             {"name": "make_unrel", "ret": "Unrel", "params": []}]
    # some classes are re-exported by the package: their shortest import path (the normal form of class_path) is shorter
    # than the path of the module that defines them
    reexport = [n for n in ("SubB", "DepB", "Base", "SubKW") if rng.random() < 0.35]
    # sometimes a second module defines another subclass of Base with the NAME of an existing one: the bare name is ambiguous
    dup = None
    if rng.random() < 0.3:
        dup = {"name": rng.choice(["SubA", "SubB"]), "params": [dict(p) for p in [c for c in classes if c["name"] == "Base"][0]["params"]]}
    return {"classes": classes, "funcs": funcs, "others": ["not_a_class"], "reexport": reexport, "dup": dup}


def ann_src(ty):
    k, c = ty
    return {"scalar": c, "optScalar": "Optional[%s]" % c, "cls": c, "optCls": "Optional[%s]" % c, "list": "List[%s]" % c, "dict": "Dict[str, %s]" % c, "union": "Union[%s, int]" % c}[k]


def is_lazy(d):
    """a class-typed parameter's default `lazy_instance(Cls, **ia)`"""
    return isinstance(d, dict) and "lazy" in d


def params_src(params):
    out = []
    for p in params:
        s = "%s: %s" % (p["name"], ann_src(p["ty"]))
        if is_lazy(p["default"]):
            s += " = lazy_instance(%s)" % ", ".join([p["default"]["lazy"]] + ["%s=%r" % kv for kv in p["default"]["ia"].items()])
        elif p["default"] != "REQ":
            s += " = %r" % (p["default"],)
        out.append(s)
    return out


def family_src(fam):
    out = "import abc\nfrom typing import Optional, List, Dict, Union\n\nfrom jsonargparse import lazy_instance\n\nLOG = []\n\n\n"
    for c in fam["classes"]:
        bases = list(c["bases"])
        if c["abstract"]:
            bases.append("abc.ABC")
        out += "class %s%s:\n" % (c["name"], "(%s)" % ", ".join(bases) if bases else "")
        ps = params_src(c["params"]) + (["**kwargs"] if c["kwargs"] else [])
        out += "    def __init__(%s):\n" % ", ".join(["self"] + ps)
        names = [p["name"] for p in c["params"]]
        out += "        LOG.append((%r, id(self), dict(%s), %s))\n" % (c["name"], ", ".join("%s=%s" % (n, n) for n in names), "dict(kwargs)" if c["kwargs"] else "{}")
        for n in names:
            out += "        self.%s = %s\n" % (n, n)
        if c["kwargs"]:
            out += "        self.kwargs = kwargs\n"
        if c["abstract"]:
            out += "\n    @abc.abstractmethod\n    def run(self):\n        ...\n"
        elif any(cc["abstract"] and cc["name"] in all_bases(fam, c["name"]) for cc in fam["classes"]):
            out += "\n    def run(self):\n        return 1\n"
        out += "\n\n"
    for f in fam["funcs"]:
        names = [p["name"] for p in f["params"]]
        out += "def %s(%s) -> %s:\n" % (f["name"], ", ".join(params_src(f["params"])), f["ret"])
        out += "    obj = %s.__new__(%s)\n" % (f["ret"], f["ret"])
        out += "    LOG.append((%r, id(obj), dict(%s), {}))\n" % (f["name"], ", ".join("%s=%s" % (n, n) for n in names))
        out += "    return obj\n\n\n"
    for o in fam["others"]:
        out += "%s = 5\n" % o
    return out


def cls_of(fam, name):
    for c in fam["classes"]:
        if c["name"] == name:
            return c
    return None


def func_of(fam, name):
    for f in fam["funcs"]:
        if f["name"] == name:
            return f
    return None


def all_bases(fam, name):
    out, todo = [], [name]
    while todo:
        n = todo.pop()
        c = cls_of(fam, n)
        for b in (c["bases"] if c else []):
            if b not in out:
                out.append(b)
                todo.append(b)
    return out


def is_sub(fam, a, b):
    if a.startswith("%"):
        return a == b or is_sub(fam, "Base", b)
    return a == b or b in all_bases(fam, a)


def target_params(fam, target):
    if target.startswith("%"):
        return fam["dup"]["params"]
    c = cls_of(fam, target)
    if c:
        return c["params"]
    f = func_of(fam, target)
    return f["params"] if f else None


def target_class(fam, target):
    """the class an import yields instances of"""
    if target.startswith("%"):
        return target
    if cls_of(fam, target):
        return target
    f = func_of(fam, target)
    return f["ret"] if f else None


# ---------------------------------------------------------------------------------------------
# temp package
# ---------------------------------------------------------------------------------------------
_PKG = {"dir": None, "mods": {}}


def pkg_dir():
    if _PKG["dir"] is None:
        d = tempfile.mkdtemp(prefix="c14pk_")
        os.makedirs(os.path.join(d, "c14gen"))
        open(os.path.join(d, "c14gen", "__init__.py"), "w").close()
        sys.path.insert(0, d)
        _PKG["dir"] = d
        atexit.register(cleanup)
    return _PKG["dir"]


def cleanup():
    d = _PKG["dir"]
    if d:
        shutil.rmtree(d, ignore_errors=True)
        if d in sys.path:
            sys.path.remove(d)
        _PKG["dir"] = None
        _PKG["mods"].clear()


def fam_hash(fam):
    return hashlib.sha256((family_src(fam) + "|" + ",".join(fam.get("reexport", [])) + "|" + json.dumps(fam.get("dup"), sort_keys=True)).encode()).hexdigest()[:16]


def module_for(fam):
    """package c14gen.f_<hash> (re-exports) with module defs (definitions)"""
    h = fam_hash(fam)
    if h in _PKG["mods"]:
        return _PKG["mods"][h]
    d = os.path.join(pkg_dir(), "c14gen", "f_" + h)
    os.makedirs(d)
    with open(os.path.join(d, "defs.py"), "w") as f:
        f.write(family_src(fam))
    with open(os.path.join(d, "__init__.py"), "w") as f:
        for n in fam.get("reexport", []):
            f.write("from .defs import %s\n" % n)
    dup = fam.get("dup")
    if dup:
        with open(os.path.join(d, "defs2.py"), "w") as f:
            f.write("from typing import Optional, List, Dict, Union\nfrom .defs import Base, LOG\n\n\nclass %s(Base):\n" % dup["name"])
            names = [p["name"] for p in dup["params"]]
            f.write("    def __init__(%s):\n" % ", ".join(["self"] + params_src(dup["params"])))
            f.write("        LOG.append((%r, id(self), dict(%s), {}))\n" % ("defs2." + dup["name"], ", ".join("%s=%s" % (n, n) for n in names)))
            for n in names:
                f.write("        self.%s = %s\n" % (n, n))
            if cls_of(fam, "Base")["abstract"]:
                f.write("\n    def run(self):\n        return 2\n")
    importlib.invalidate_caches()
    mod = importlib.import_module("c14gen.f_%s.defs" % h)
    if dup:
        importlib.import_module("c14gen.f_%s.defs2" % h)
    _PKG["mods"][h] = mod
    return mod


def pkgname(fam):
    return "c14gen.f_" + fam_hash(fam)


def modname(fam):
    """the module that defines the family"""
    return pkgname(fam) + ".defs"


def canonical(fam, name):
    """shortest import path of a class / function of the family"""
    if name.startswith("%") or name.startswith("defs2."):
        return pkgname(fam) + ".defs2." + name.split(".")[-1].lstrip("%")
    return (pkgname(fam) if name in fam.get("reexport", []) else modname(fam)) + "." + name


# ---------------------------------------------------------------------------------------------
# sources.  A raw value is: a scalar python value | {"name": s} (class name or dotted path; "@X" = full path of X)
#   | {"cp": s|None, "ia": {k: raw}|None, "dk": {k: scalar}|None} | {"bare": {k: raw}}
# A source is {"form": "value", "raw": raw, "via": "argv"|"config"} or {"form": "dotted", "key": [k..], "raw": raw, "ia_prefix": bool}
# ---------------------------------------------------------------------------------------------
def full(fam, name):
    """'@X' -> full import path of X in the family's module; other names unchanged"""
    if isinstance(name, str) and name.startswith("@"):
        return modname(fam) + "." + name[1:]
    if isinstance(name, str) and name.startswith("^"):
        return canonical(fam, name[1:])
    if isinstance(name, str) and name.startswith("%"):
        return canonical(fam, name)
    return name


def raw_to_json(fam, raw):
    if isinstance(raw, dict):
        if "name" in raw:
            return full(fam, raw["name"])
        if "bare" in raw:
            return {k: raw_to_json(fam, v) for k, v in raw["bare"].items()}
        out = {}
        if raw.get("cp") is not None:
            out["class_path"] = full(fam, raw["cp"])
        if raw.get("ia") is not None:
            out["init_args"] = {k: raw_to_json(fam, v) for k, v in raw["ia"].items()}
        if raw.get("dk") is not None:
            out["dict_kwargs"] = dict(raw["dk"])
        return out
    return raw


def build_argv(fam, sources, opt="opt"):
    argv = []
    for s in sources:
        if s["form"] == "default":
            continue                         # given to add_argument(default=...)
        if s["form"] == "dotted":
            key = []
            for i, k in enumerate(s["key"]):
                if s.get("ia_prefix") and k != "dict_kwargs" and (i == 0 or s["key"][i - 1] != "dict_kwargs"):
                    key.append("init_args")
                key.append(k)
            raw = s["raw"]
            text = full(fam, raw["name"]) if isinstance(raw, dict) and "name" in raw else (json.dumps(raw_to_json(fam, raw)) if isinstance(raw, dict) else text_of(raw))
            argv.append("--%s.%s=%s" % (opt, ".".join(key), text))
        else:
            j = raw_to_json(fam, s["raw"])
            if s.get("via") == "file" and isinstance(j, dict):
                # the spec is in a file whose path is given (the argument is added with enable_path=True)
                name = os.path.join(pkg_dir(), "spec_%s.json" % hashlib.sha256(json.dumps(j, sort_keys=True).encode()).hexdigest()[:12])
                with open(name, "w") as f:
                    f.write(json.dumps(j))
                argv += ["--" + opt, name]
            elif s.get("via") == "config":
                argv += ["--config", json.dumps({opt: j})]
            elif isinstance(j, str):
                argv.append("--%s=%s" % (opt, j))
            else:
                argv += ["--" + opt, json.dumps(j)]
    return argv


def default_of(sources):
    """the raw value of a leading `default` source (None when there is none)"""
    return sources[0]["raw"] if sources and sources[0]["form"] == "default" else None


# ---------------------------------------------------------------------------------------------
# the reference (property level).  state: None | {"t": target, "ia": {k: scalar | state | None}, "dk": {k: v}}
# ---------------------------------------------------------------------------------------------
class Reject(Exception):
    pass


def resolve(fam, T, name):
    """name or '@X' or dotted path -> ('cls'|'func', target) ; raises Reject"""
    if name.startswith("%"):
        if fam.get("dup") and fam["dup"]["name"] == name[1:]:
            return name
        raise Reject("importFail")
    if name.startswith("@") or name.startswith("^"):
        n = name[1:]
        if cls_of(fam, n):
            return n
        if func_of(fam, n):
            return n
        if n in fam["others"]:
            raise Reject("notSubclass")
        raise Reject("importFail")
    if "." in name:
        raise Reject("importFail")
    cands = [c["name"] for c in fam["classes"] if c["name"] == name and not c["abstract"] and is_sub(fam, c["name"], T)]
    dup = fam.get("dup")
    if dup and dup["name"] == name and is_sub(fam, "Base", T):
        cands.append("%" + name)
    if len(cands) == 1:
        return cands[0]
    if len(cands) > 1:
        raise Reject("ambiguous")
    raise Reject("importFail")


def param_of(params, k):
    for p in params:
        if p["name"] == k:
            return p
    return None


def scalar_ok(t, v):
    """the declared type itself, or an int for a float (the adapter converts it)"""
    return type(v).__name__ == t or (t == "float" and type(v) is int)


def scalar_conv(t, v):
    return float(v) if t == "float" and type(v) is int else v


def value_fits(fam, p, v):
    """does a stored value fit parameter p (used when the class changes)?"""
    k, c = p["ty"]
    if k == "scalar":
        return not isinstance(v, dict) and v is not None and scalar_ok(c, v)
    if k == "optScalar":
        return v is None or (not isinstance(v, dict) and scalar_ok(c, v))
    if k in ("cls", "optCls"):
        if v is None:
            return k == "optCls"
        return isinstance(v, dict) and "t" in v and is_sub(fam, target_class(fam, v["t"]), c)
    return False


def split_raw(raw):
    """(cp|None, ia|None, dk|None) of a raw value; scalars are not specs"""
    if isinstance(raw, dict):
        if "name" in raw:
            return raw["name"], None, None
        if "bare" in raw:
            return None, raw["bare"], None
        return raw.get("cp"), raw.get("ia"), raw.get("dk")
    if isinstance(raw, str):
        return raw, None, None
    raise Reject("notSpec")


STALE_DK = [False]      # True: compute what the open finding C14-stale-dict-kwargs describes instead of the property


def lazy_state(fam, p):
    """the completed spec a lazy_instance default stands for"""
    d = p["default"]
    return ref_finalize(fam, {"t": d["lazy"], "ia": dict(d["ia"]), "dk": {}})


def ref_apply(fam, T, state, raw):
    cp, ia, dk = split_raw(raw)
    abstract_T = cls_of(fam, T)["abstract"]
    prev_t = state["t"] if state else (None if abstract_T else T)
    if cp is None:
        if prev_t is None:
            raise Reject("notSpec")
        target = prev_t
    else:
        target = resolve(fam, T, cp)
        if not is_sub(fam, target_class(fam, target), T):
            raise Reject("notSubclass")
    params = target_params(fam, target)
    if state and state["t"] != target:
        kept = {}
        for k, v in state["ia"].items():
            q = param_of(params, k)
            if q and value_fits(fam, q, v):
                # a kept scalar is what the new class's type makes of it (an int kept for a float parameter is a float)
                kept[k] = scalar_conv(q["ty"][1], v) if q["ty"][0] in ("scalar", "optScalar") and v is not None else v
        # the property: nothing of the old class that the new one does not accept survives.  The open finding: the old
        # dict_kwargs stay when the source that changes the class carries none of its own
        kept_dk = dict(state["dk"]) if STALE_DK[0] and not any(not param_of(params, k) for k in (dk or {})) else {}
    else:
        kept = dict(state["ia"]) if state else {}
        kept_dk = dict(state["dk"]) if state else {}
    new_ia = dict(ia or {})
    new_dk = {}
    for k, v in (dk or {}).items():
        if param_of(params, k):
            new_ia[k] = v
        else:
            new_dk[k] = v
    for k, v in new_ia.items():
        prev_k = kept.get(k)
        q = param_of(params, k)
        if prev_k is None and k not in kept and q is not None and is_lazy(q["default"]):
            prev_k = lazy_state(fam, q)          # the parse starts from the parameter's default spec: its class is known
        kept[k] = ref_value(fam, params, k, prev_k, v)
    kept_dk.update(new_dk)
    return {"t": target, "ia": kept, "dk": kept_dk}


def ref_value(fam, params, k, prev, v):
    p = param_of(params, k)
    if p is None:
        raise Reject("unknownKey")
    kind, c = p["ty"]
    if kind == "scalar":
        if v is None:
            raise Reject("noneForScalar")     # None only where the annotation allows None
        if isinstance(v, dict) or not scalar_ok(c, v):
            raise Reject("illTyped")
        return scalar_conv(c, v)
    if kind == "optScalar":
        if v is None:
            return None
        if isinstance(v, dict) or not scalar_ok(c, v):
            raise Reject("illTyped")
        return scalar_conv(c, v)
    if kind == "optCls" and v is None:
        return None
    if kind in ("cls", "optCls"):
        if isinstance(v, dict) and "dotted" in v:
            return ref_dotted(fam, c, prev if isinstance(prev, dict) else None, v["dotted"], v["raw"])
        return ref_apply(fam, c, prev if isinstance(prev, dict) else None, v)
    raise Reject("outside")


def ref_dotted(fam, T, state, key, raw):
    if key[0] == "dict_kwargs" and len(key) == 2:
        return ref_apply(fam, T, state, {"cp": None, "ia": None, "dk": {key[1]: raw}})
    if len(key) == 1:
        return ref_apply(fam, T, state, {"bare": {key[0]: raw}})
    return ref_apply(fam, T, state, {"bare": {key[0]: {"dotted": key[1:], "raw": raw}}})


def ref_finalize(fam, state, fallback=None):
    """defaults and required parameters; `fallback`: the init_args of the ENCLOSING parameter's lazy_instance default, which
    act as defaults of whatever class the nested value finally names (scalars the type accepts)"""
    if state is None:
        return None
    out = {}
    for p in target_params(fam, state["t"]):
        if p["name"] in state["ia"]:
            v = state["ia"][p["name"]]
            if isinstance(v, dict):
                out[p["name"]] = ref_finalize(fam, v, lazy_state(fam, p)["ia"] if is_lazy(p["default"]) else None)
            else:
                out[p["name"]] = scalar_conv(p["ty"][1], v) if p["ty"][0] in ("scalar", "optScalar") and v is not None else v
        elif fallback is not None and p["name"] in fallback and p["ty"][0] in ("scalar", "optScalar") and not isinstance(fallback[p["name"]], dict) \
                and value_fits(fam, p, fallback[p["name"]]):
            v = fallback[p["name"]]
            out[p["name"]] = scalar_conv(p["ty"][1], v) if v is not None else v
        elif is_lazy(p["default"]):
            out[p["name"]] = lazy_state(fam, p)
        elif p["default"] != "REQ":
            out[p["name"]] = p["default"]
        else:
            raise Reject("missingRequired")
    return {"t": state["t"], "ia": out, "dk": dict(state["dk"])}


def ref_step(fam, T, state, s):
    if s["form"] == "dotted":
        return ref_dotted(fam, T, state, s["key"], s["raw"])
    if s["form"] == "default":
        return ref_finalize(fam, ref_apply(fam, T, None, s["raw"]))
    return ref_apply(fam, T, state, s["raw"])


def reference(fam, T, sources, stale_dk=False):
    """('ok', final state | None) or ('reject', category); stale_dk: the behaviour of the open finding C14-stale-dict-kwargs"""
    old = STALE_DK[0]
    STALE_DK[0] = stale_dk
    try:
        return _reference(fam, T, sources)
    finally:
        STALE_DK[0] = old


def _reference(fam, T, sources):
    state = None
    try:
        for s in sources:
            if s["form"] == "dotted":
                state = ref_dotted(fam, T, state, s["key"], s["raw"])
            elif s["form"] == "default":
                # the parse starts from the completed default: what its class fills in counts as given afterwards
                state = ref_finalize(fam, ref_apply(fam, T, None, s["raw"]))
            else:
                state = ref_apply(fam, T, state, s["raw"])
        return ("ok", ref_finalize(fam, state))
    except Reject as ex:
        return ("reject", str(ex))


def canon_state(fam, st):
    if st is None:
        return None
    return {"cp": canonical(fam, st["t"]),
            "ia": {k: canon_state(fam, v) if isinstance(v, dict) else {"lit": lit(v)} for k, v in st["ia"].items()},
            "dk": {k: {"lit": lit(v)} for k, v in st["dk"].items()}}


def expected_ctors(fam, st, log=None):
    """post-order constructor log of a final state"""
    log = [] if log is None else log
    args = {}
    for p in target_params(fam, st["t"]):
        v = st["ia"][p["name"]]
        if isinstance(v, dict):
            expected_ctors(fam, v, log)
            args[p["name"]] = {"obj": len(log) - 1}
        else:
            args[p["name"]] = {"lit": lit(v)}
    log.append({"target": canonical(fam, st["t"]), "args": args, "kwargs": {k: {"lit": lit(v)} for k, v in st["dk"].items()}})
    return log


# ---------------------------------------------------------------------------------------------
# real side
# ---------------------------------------------------------------------------------------------
ERR_PATTERNS = [
    ("notSubclass", r"does not correspond to a subclass of"),
    ("unknownKey", r"is not expected|Unrecognized arguments|unrecognized arguments"),
    ("missingRequired", r"is required but not included"),
    ("notList", r"Expected a <class 'list'>|Expected a typing.List|Expected a List"),
    ("notDict", r"Expected a <class 'dict'>|Expected a typing.Dict|Expected a Dict"),
    ("illTyped", r"Expected a <class|Expected a \["),
    ("importFail", r"No module named|has no attribute|Expected a dot import path string"),
    ("ambiguous", r"Multiple subclasses with name"),
    ("notSpec", r"Not a valid subclass of"),
]


def err_category(msg):
    best = None
    for cat, pat in ERR_PATTERNS:
        m = re.search(pat, msg)
        if m and (best is None or m.start() < best[0]):
            best = (m.start(), cat)
    return best[1] if best else "other"


def canon_real(v):
    from jsonargparse import Namespace

    if isinstance(v, Namespace) and "class_path" in v:
        ia = v.get("init_args")
        dk = v.get("dict_kwargs") or {}
        return {"cp": v["class_path"], "ia": {k.lstrip("\u200b"): canon_real(x) for k, x in (vars(ia).items() if ia is not None else [])},
                "dk": {k: canon_real(x) for k, x in dk.items()}}
    if isinstance(v, (Namespace, dict, list)):
        return {"other": repr(v)[:200]}
    return {"lit": lit(v)}


def real_run(fam, T, argv, twice=True, default=None):
    from jsonargparse import ArgumentError, ArgumentParser

    mod = module_for(fam)
    parser = ArgumentParser(exit_on_error=False)
    parser.add_argument("--config", action="config")
    kw = {}
    if default is not None:
        kw["default"] = raw_to_json(fam, default)
    if any(isinstance(a, str) and a.endswith(".json") and os.path.basename(a).startswith("spec_") for a in argv):
        kw["enable_path"] = True
    parser.add_argument("--opt", type=getattr(mod, T), **kw)
    out = {}
    err = io.StringIO()
    try:
        with contextlib.redirect_stderr(err):
            cfg = parser.parse_args(list(argv))
        out["kind"] = "ok"
        out["cfg"] = canon_real(cfg.get("opt")) if cfg.get("opt") is not None else None
    except ArgumentError as ex:
        out["kind"] = "reject"
        out["cat"] = err_category(str(ex))
        out["msg"] = str(ex).replace("\n", " | ")[:400]
        return out
    except SystemExit as ex:
        out["kind"] = "exit:%r" % (ex.code,)
        return out
    except Exception as ex:  # noqa: BLE001 - the error class is the observation
        out["kind"] = "crash"
        out["msg"] = "%s: %s" % (type(ex).__name__, str(ex)[:300])
        return out
    if out["cfg"] is None:
        return out
    snapshot = json.dumps(out["cfg"], sort_keys=True)
    runs = []
    for _ in range(2 if twice else 1):
        mod.LOG.clear()
        try:
            init = parser.instantiate_classes(cfg)
        except Exception as ex:  # noqa: BLE001
            out["inst_error"] = "%s: %s" % (type(ex).__name__, str(ex)[:300])
            mod.LOG.clear()
            return out
        log = list(mod.LOG)
        mod.LOG.clear()
        ids = {oid: i for i, (_, oid, _, _) in enumerate(log)}
        ctors = []
        for name, _, args, kwargs in log:
            ctors.append({"target": canonical(fam, name),
                          "args": {k: ({"obj": ids[id(v)]} if id(v) in ids and not isinstance(v, (int, str, float, bool, type(None))) else {"lit": lit(v)}) for k, v in args.items()},
                          "kwargs": {k: {"lit": lit(v)} for k, v in kwargs.items()}})
        obj = init.get("opt")
        attrs = {}
        for k, v in vars(obj).items():
            if k == "kwargs":
                continue
            attrs[k] = {"obj": ids[id(v)]} if id(v) in ids and not isinstance(v, (int, str, float, bool, type(None))) else {"lit": lit(v)}
        tname = ("defs2." if type(obj).__module__.endswith(".defs2") else "") + type(obj).__name__
        runs.append({"ctors": ctors, "type": canonical(fam, tname), "attrs": attrs, "root_id": id(obj), "root": obj})
    out["ctors"] = runs[0]["ctors"]
    out["type"] = runs[0]["type"]
    out["attrs"] = runs[0]["attrs"]
    if twice:
        out["second_same_log"] = runs[1]["ctors"] == runs[0]["ctors"]
        out["second_distinct"] = runs[1]["root"] is not runs[0]["root"]
    out["cfg_unchanged"] = json.dumps(canon_real(cfg.get("opt")), sort_keys=True) == snapshot
    return out


# ---------------------------------------------------------------------------------------------
# model side
# ---------------------------------------------------------------------------------------------
def wire_param(fam, p):
    k, c = p["ty"]
    ty = [k, c] if k in ("scalar", "optScalar") else [k, canonical(fam, c)]
    if is_lazy(p["default"]):
        return {"name": p["name"], "ty": ty, "dflt": [canon_to_val(canon_state(fam, lazy_state(fam, p)))]}
    return {"name": p["name"], "ty": ty, "dflt": [] if p["default"] == "REQ" else [{"lit": lit(p["default"])}]}


def canon_to_val(c):
    """canonical spec -> wire VAL"""
    if "lit" in c:
        return {"lit": c["lit"]}
    return {"spec": {"cp": c["cp"], "ia": [[k, canon_to_val(v)] for k, v in c["ia"].items()], "dk": [[k, canon_to_val(v)] for k, v in c["dk"].items()]}}


def model_ok_params(params):
    return all(p["ty"][0] in ("scalar", "optScalar", "cls", "optCls") for p in params)


def wire_env(fam):
    m = modname(fam)
    classes = [c for c in fam["classes"] if model_ok_params(c["params"])]
    env = {"classes": [{"path": canonical(fam, c["name"]), "name": c["name"], "abstract": c["abstract"],
                        "params": [wire_param(fam, p) for p in c["params"]]} for c in classes],
           "edges": [[canonical(fam, c["name"]), canonical(fam, b)] for c in classes for b in c["bases"]],
           "imports": []}
    for c in classes:
        for path in sorted({m + "." + c["name"], canonical(fam, c["name"])}):
            env["imports"].append([path, {"k": "cls", "path": canonical(fam, c["name"])}])
    dup = fam.get("dup")
    if dup:
        path = canonical(fam, "%" + dup["name"])
        env["classes"].append({"path": path, "name": dup["name"], "abstract": False, "params": [wire_param(fam, p) for p in dup["params"]]})
        env["edges"].append([path, canonical(fam, "Base")])
        env["imports"].append([path, {"k": "cls", "path": path}])
    for f in fam["funcs"]:
        env["imports"].append([m + "." + f["name"], {"k": "func", "path": m + "." + f["name"], "ret": canonical(fam, f["ret"]),
                                                     "params": [wire_param(fam, p) for p in f["params"]]}])
    for o in fam["others"]:
        env["imports"].append([m + "." + o, {"k": "other"}])
    return env


def wire_raw(fam, raw):
    if isinstance(raw, dict):
        if "name" in raw:
            return {"lit": ["str", full(fam, raw["name"])]}
        if "dotted" in raw:
            return {"nested": [raw["dotted"], wire_raw(fam, raw["raw"])]}
        if "bare" in raw:
            return {"bare": [[k, wire_raw(fam, v)] for k, v in raw["bare"].items()]}
        return {"spec": {"cp": full(fam, raw["cp"]) if raw.get("cp") is not None else None,
                         "ia": [[k, wire_raw(fam, v)] for k, v in (raw.get("ia") or {}).items()],
                         "dk": [[k, wire_raw(fam, v)] for k, v in (raw.get("dk") or {}).items()]}}
    return {"lit": lit(raw)}


def wire_source(fam, s):
    if s["form"] == "dotted":
        return {"nested": [s["key"], wire_raw(fam, s["raw"])]}
    return wire_raw(fam, s["raw"])


def model_val_to_canon(v):
    if v is None:
        return None
    if "lit" in v:
        return {"lit": v["lit"]}
    if "spec" in v:
        return {"cp": v["spec"]["cp"], "ia": {k: model_val_to_canon(x) for k, x in v["spec"]["ia"]},
                "dk": {k: model_val_to_canon(x) for k, x in v["spec"]["dk"]}}
    if "lst" in v:
        return [model_val_to_canon(x) for x in v["lst"]]
    if "dct" in v:
        return {k: model_val_to_canon(x) for k, x in v["dct"]}
    return {"other": json.dumps(v)[:200]}


def model_ctors(m):
    return [{"target": c["target"], "args": {k: a for k, a in c["args"]}, "kwargs": {k: a for k, a in c["kwargs"]}} for c in m.get("ctors", [])]


# ---------------------------------------------------------------------------------------------
# generators of sources
# ---------------------------------------------------------------------------------------------
def acceptable(fam, T):
    out = [c["name"] for c in fam["classes"] if is_sub(fam, c["name"], T) and not c["abstract"] and model_ok_params(c["params"])]
    out += [f["name"] for f in fam["funcs"] if is_sub(fam, f["ret"], T)]
    if fam.get("dup") and is_sub(fam, "Base", T):
        out.append("%" + fam["dup"]["name"])
    return out


def gen_value_for(rng, fam, p, depth=0):
    k, c = p["ty"]
    if k == "scalar":
        return rng.choice(SCALARS[c])
    if k == "optScalar":
        return None if rng.random() < 0.45 else rng.choice(SCALARS[c])
    if k == "optCls" and rng.random() < 0.25:
        return None
    return gen_spec_raw(rng, fam, c, depth + 1)


def gen_ia(rng, fam, target, depth=0, all_required=True):
    ia = {}
    for p in target_params(fam, target):
        if (p["default"] == "REQ" and all_required) or rng.random() < 0.45:
            ia[p["name"]] = gen_value_for(rng, fam, p, depth)
    return ia


def name_notation(rng, fam, T, target):
    """a string that names the target: bare class name (classes only, concrete) or full path"""
    r = rng.random()
    if target.startswith("%"):
        return target
    ambiguous = fam.get("dup") and fam["dup"]["name"] == target and is_sub(fam, "Base", T)
    if cls_of(fam, target) and r < 0.45 and not ambiguous:
        return target
    if cls_of(fam, target) and r < 0.65:
        return "^" + target
    return "@" + target


def gen_spec_raw(rng, fam, T, depth=0):
    """a valid raw value that sets the class"""
    target = rng.choice(acceptable(fam, T))
    ia = gen_ia(rng, fam, target, depth)
    r = rng.random()
    if not ia and r < 0.5:
        return {"name": name_notation(rng, fam, T, target)}
    raw = {"cp": name_notation(rng, fam, T, target), "ia": ia if (ia or rng.random() < 0.5) else None, "dk": None}
    c = cls_of(fam, target)
    if c and c["kwargs"] and rng.random() < 0.6:
        raw["dk"] = {rng.choice(["extra", "zz"]): rng.choice([1, 2, "q"])}
    return raw


def current_target(fam, T, state):
    if state:
        return state["t"]
    return None if cls_of(fam, T)["abstract"] else T


def gen_sources(rng, fam, T, n_steps, fault=None):
    """a list of sources; all valid, or with one injected fault in the last step"""
    sources, state = [], None
    if rng.random() < 0.2 and acceptable(fam, T):
        # the argument has a default: a dict with the full class_path (and some init_args)
        target = rng.choice([t for t in acceptable(fam, T) if cls_of(fam, t)] or acceptable(fam, T))
        sources.append({"form": "default", "raw": {"cp": "^" + target if cls_of(fam, target) else "@" + target,
                                                   "ia": {k: v for k, v in gen_ia(rng, fam, target).items() if not isinstance(v, dict)}, "dk": None}})
        if reference(fam, T, sources)[0] != "ok":
            sources = []
        else:
            state = ref_step(fam, T, None, sources[0])
    for step in range(n_steps):
        last = step == n_steps - 1
        cur = current_target(fam, T, state)
        r = rng.random()
        if cur is None or r < 0.45:
            src = {"form": "value", "raw": gen_spec_raw(rng, fam, T), "via": rng.choice(["argv", "argv", "config", "file"])}
        else:
            params = [p for p in target_params(fam, cur) if p["ty"][0] in ("scalar", "optScalar", "cls", "optCls")]
            if not params:
                src = {"form": "value", "raw": gen_spec_raw(rng, fam, T), "via": "argv"}
            else:
                ps = rng.sample(params, rng.randint(1, min(2, len(params))))
                kv = {p["name"]: gen_value_for(rng, fam, p) for p in ps}
                rr = rng.random()
                if rr < 0.3:
                    src = {"form": "value", "raw": {"bare": kv}, "via": rng.choice(["argv", "config"])}
                elif rr < 0.55:
                    src = {"form": "value", "raw": {"cp": None, "ia": kv, "dk": None}, "via": rng.choice(["argv", "config"])}
                else:
                    p = ps[0]
                    v = kv[p["name"]]
                    if isinstance(v, dict) and "name" not in v:
                        # a nested dict value through a dotted option is given as JSON text
                        src = {"form": "dotted", "key": [p["name"]], "raw": v, "ia_prefix": rng.random() < 0.4}
                    elif v is None and p["ty"][0] == "optScalar" and rng.random() < 0.6:
                        src = {"form": "dotted", "key": [p["name"]], "raw": None, "ia_prefix": rng.random() < 0.4}     # --opt.p=null
                    elif v is None:
                        src = {"form": "value", "raw": {"bare": {p["name"]: None}}, "via": "argv"}
                    else:
                        src = {"form": "dotted", "key": [p["name"]], "raw": v, "ia_prefix": rng.random() < 0.4}
                    # one level deeper: an argument of a nested class that is already set
                    st_v = state["ia"].get(p["name"]) if state else None
                    if isinstance(st_v, dict) and rng.random() < 0.6:
                        sub = [q for q in target_params(fam, st_v["t"]) if q["ty"][0] == "scalar"]
                        if sub:
                            q = rng.choice(sub)
                            src = {"form": "dotted", "key": [p["name"], q["name"]], "raw": rng.choice(SCALARS[q["ty"][1]]), "ia_prefix": rng.random() < 0.4}
        if last and fault:
            src = inject_fault(rng, fam, T, state, fault) or src
        sources.append(src)
        res = reference(fam, T, sources)
        if res[0] != "ok":
            break
        # recompute the intermediate (non-finalised) state
        state = None
        try:
            for s in sources:
                state = ref_step(fam, T, state, s)
        except Reject:
            break
    return sources


def inject_fault(rng, fam, T, state, fault):
    cur = current_target(fam, T, state)
    via = rng.choice(["argv", "config"])
    if fault == "wrong-class":
        name = rng.choice(["@Unrel", "@make_unrel", "Unrel"] + (["@Base"] if T != "Base" and not is_sub(fam, "Base", T) else []))
        raw = {"name": name} if rng.random() < 0.5 else {"cp": name, "ia": {}, "dk": None}
        return {"form": "value", "raw": raw, "via": via}
    if fault == "non-class":
        return {"form": "value", "raw": {"name": "@not_a_class"}, "via": via}
    if fault == "missing-import":
        return {"form": "value", "raw": {"name": rng.choice(["@Missing", "nomodule_c14.Thing", "NoSuchName"])}, "via": via}
    if fault in ("unknown-key", "ill-typed"):
        target = rng.choice(acceptable(fam, T)) if (cur is None or rng.random() < 0.5) else cur
        ia = gen_ia(rng, fam, target)
        if fault == "unknown-key":
            ia["nosuch"] = 1
        else:
            sc = [p for p in target_params(fam, target) if p["ty"][0] == "scalar" and p["ty"][1] in ("int", "float", "bool")]
            if not sc:
                return None
            ia[rng.choice(sc)["name"]] = "notanumber"
        if target == cur and rng.random() < 0.5:
            k = "nosuch" if fault == "unknown-key" else [k for k, v in ia.items() if v == "notanumber"][0]
            return {"form": "dotted", "key": [k], "raw": ia[k], "ia_prefix": rng.random() < 0.5}
        return {"form": "value", "raw": {"cp": name_notation(rng, fam, T, target), "ia": ia, "dk": None}, "via": via}
    if fault == "missing-required":
        cands = [t for t in acceptable(fam, T) if any(p["default"] == "REQ" for p in target_params(fam, t))]
        if not cands:
            return None
        target = rng.choice(cands)
        ia = gen_ia(rng, fam, target)
        req = [p["name"] for p in target_params(fam, target) if p["default"] == "REQ"]
        ia.pop(rng.choice(req), None)
        return {"form": "value", "raw": {"cp": name_notation(rng, fam, T, target), "ia": ia, "dk": None}, "via": via}
    if fault == "abstract-bare":
        return {"form": "value", "raw": {"bare": {}}, "via": via}
    if fault == "ambiguous-name":
        if not (fam.get("dup") and is_sub(fam, "Base", T)):
            return None
        return {"form": "value", "raw": {"name": fam["dup"]["name"]}, "via": via}
    return None


def dk_change_cases(rng, fam):
    """class changes between the two **kwargs classes where BOTH sources carry dict_kwargs: disjoint keys, overlapping keys,
    a key of the first that is a real parameter of the second; the new spec must hold only its own dict_kwargs"""
    out = []
    if not (cls_of(fam, "SubKW") and cls_of(fam, "SubKW2")):
        return out
    for T, wrap in (("Base", False), ("Owner", True)):
        for a, b in (("SubKW", "SubKW2"), ("SubKW2", "SubKW")):
            variants = [({"extra": 1, "zz": "q"}, {"other": 5}), ({"extra": 1}, {"extra": 7, "other": 2}),
                        ({"retries": 9, "extra": 1}, {"zz": 2}), ({"extra": 1}, {"retries": 4, "zz": 2})]
            dk1, dk2 = rng.choice(variants)
            ia1 = gen_ia(rng, fam, a)
            ia2 = gen_ia(rng, fam, b)
            r1 = {"cp": name_notation(rng, fam, "Base", a), "ia": ia1, "dk": dk1}
            r2 = {"cp": name_notation(rng, fam, "Base", b), "ia": ia2, "dk": dk2}
            if wrap:
                sq = [{"form": "value", "raw": {"bare": {"dep": r1}}, "via": rng.choice(["argv", "config"])},
                      {"form": "value", "raw": {"bare": {"dep": r2}}, "via": rng.choice(["argv", "config"])}]
            else:
                sq = [{"form": "value", "raw": r1, "via": rng.choice(["argv", "config", "file"])},
                      {"form": "value", "raw": r2, "via": rng.choice(["argv", "config"])}]
            if rng.random() < 0.4:
                # a third source of the same class merges its dict_kwargs over the second's
                r3 = {"cp": None, "ia": None, "dk": {"late": 3}}
                sq.append({"form": "value", "raw": {"bare": {"dep": r3}} if wrap else r3, "via": "argv"})
            out.append((fam, T, sq))
    return out


def lazy_default_cases(rng, fam):
    """a nested class-typed parameter whose default is lazy_instance(Sub, ...): short forms without class_path keep the
    DEFAULT's class (with and without a sibling init arg set earlier), a class name changes it"""
    out = []
    for c in fam["classes"]:
        if not model_ok_params(c["params"]) or c["abstract"]:
            continue
        for p in c["params"]:
            if not is_lazy(p["default"]):
                continue
            T = c["name"]
            dcls = p["default"]["lazy"]
            qs = [q for q in target_params(fam, dcls) if q["ty"][0] == "scalar"]
            req = {q["name"]: gen_value_for(rng, fam, q) for q in c["params"] if q["default"] == "REQ"}
            if any(isinstance(v, dict) for v in req.values()):
                continue
            pre = [{"form": "value", "raw": {"cp": "^" + T, "ia": req, "dk": None}, "via": "argv"}] if req else []
            sib = [q for q in c["params"] if q["ty"][0] == "scalar" and q["name"] != p["name"]]
            seqs = [pre + [{"form": "value", "raw": {"name": "^" + T}, "via": "argv"}]]
            if qs:
                q = rng.choice(qs)
                v = rng.choice(SCALARS[q["ty"][1]])
                short = {"cp": None, "ia": {q["name"]: v}, "dk": None}
                seqs.append(pre + [{"form": "dotted", "key": [p["name"], q["name"]], "raw": v, "ia_prefix": rng.random() < 0.5}])
                seqs.append(pre + [{"form": "value", "raw": {"bare": {p["name"]: short}}, "via": rng.choice(["argv", "config"])}])
                seqs.append(pre + [{"form": "value", "raw": {"cp": None, "ia": {p["name"]: {"bare": {q["name"]: v}}}, "dk": None}, "via": "config"}])
                if sib:
                    s0 = rng.choice(sib)
                    seqs.append(pre + [{"form": "dotted", "key": [s0["name"]], "raw": rng.choice(SCALARS[s0["ty"][1]]), "ia_prefix": False},
                                       {"form": "dotted", "key": [p["name"], q["name"]], "raw": v, "ia_prefix": False}])
            other = [t for t in acceptable(fam, p["ty"][1]) if cls_of(fam, t) and t != dcls and not t.startswith("%")]
            if other:
                o = rng.choice(other)
                ia_o = {k: v for k, v in gen_ia(rng, fam, o).items()}
                seqs.append(pre + [{"form": "dotted", "key": [p["name"]], "raw": {"cp": name_notation(rng, fam, p["ty"][1], o), "ia": ia_o, "dk": None}, "ia_prefix": False}])
            for sq in seqs:
                if sq and not has_dk_before_change(fam, T, sq):
                    out.append((fam, T, sq))
    rng.shuffle(out)
    return out[:8]


def none_carry_cases(rng, fam):
    """class changes X -> Y where a parameter is Optional[T] in X and plain T in Y and the value carried from X is None
    (explicit null through a dotted option, through a config, or the completed default of the argument)"""
    out = []
    for T in ("Base", "SubA"):
        acc = [t for t in acceptable(fam, T) if cls_of(fam, t)]
        for X in acc:
            for p in target_params(fam, X):
                if p["ty"][0] != "optScalar":
                    continue
                for Y in acc:
                    q = param_of(target_params(fam, Y), p["name"]) if Y != X else None
                    if not q or q["ty"][0] != "scalar":
                        continue
                    ia_x = {k: v for k, v in gen_ia(rng, fam, X).items() if k != p["name"]}
                    ia_y = {k: v for k, v in gen_ia(rng, fam, Y).items() if k != p["name"]}
                    to_y = {"cp": name_notation(rng, fam, T, Y), "ia": ia_y, "dk": None} if ia_y else {"name": name_notation(rng, fam, T, Y)}
                    seqs = [
                        [{"form": "value", "raw": {"cp": name_notation(rng, fam, T, X), "ia": ia_x, "dk": None}, "via": "argv"},
                         {"form": "dotted", "key": [p["name"]], "raw": None, "ia_prefix": rng.random() < 0.5},
                         {"form": "value", "raw": to_y, "via": rng.choice(["argv", "config"])}],
                        [{"form": "value", "raw": {"cp": name_notation(rng, fam, T, X), "ia": dict(ia_x, **{p["name"]: None}), "dk": None}, "via": "config"},
                         {"form": "value", "raw": to_y, "via": "config"}],
                        [{"form": "default", "raw": {"cp": "^" + X, "ia": dict({k: v for k, v in ia_x.items() if not isinstance(v, dict)}, **{p["name"]: None}), "dk": None}},
                         {"form": "value", "raw": to_y, "via": "argv"}],
                    ]
                    if p["default"] is None and not any(isinstance(v, dict) for v in ia_x.values()):
                        # the None comes from the class default that completes the argument's default spec
                        seqs.append([{"form": "default", "raw": {"cp": "^" + X, "ia": ia_x, "dk": None}}, {"form": "value", "raw": to_y, "via": "argv"}])
                    # a value that IS valid for Y is kept (control)
                    seqs.append([{"form": "value", "raw": {"cp": name_notation(rng, fam, T, X), "ia": dict(ia_x, **{p["name"]: rng.choice(SCALARS[p["ty"][1]])}), "dk": None}, "via": "argv"},
                                 {"form": "value", "raw": to_y, "via": "argv"}])
                    for sq in seqs:
                        if sq[0]["form"] == "default" and reference(fam, T, sq[:1])[0] != "ok":
                            continue         # the default itself must be a complete, valid spec
                        if not has_dk_before_change(fam, T, sq):
                            out.append((fam, T, sq))
    rng.shuffle(out)
    return out[:10]


def class_params_by_path(fam):
    m = {}
    for c in fam["classes"]:
        m[canonical(fam, c["name"])] = c["params"]
    for f in fam["funcs"]:
        m[canonical(fam, f["name"])] = f["params"]
    if fam.get("dup"):
        m[canonical(fam, "%" + fam["dup"]["name"])] = fam["dup"]["params"]
    return m


NONE_LIT = {"lit": ["NoneType", "None"]}


def validity_problem(fam, cfg, ctors=None):
    """every init_arg of the accepted spec must be valid for the NAMED class: a parameter of that class, and None only
    where the annotation allows None; the constructors must not receive None for a non-Optional parameter"""
    by_path = class_params_by_path(fam)

    def walk(spec, where):
        if not isinstance(spec, dict) or "cp" not in spec:
            return None
        params = by_path.get(spec["cp"])
        if params is None:
            return None
        for k, v in spec["ia"].items():
            q = param_of(params, k)
            if q is None:
                return "%s: init arg %r is not a parameter of %s" % (where, k, spec["cp"])
            if v == NONE_LIT and q["ty"][0] in ("scalar", "cls", "list", "dict"):
                return "%s: init arg %s=None, but %s declares it as %s (not Optional)" % (where, k, spec["cp"].split(".")[-1], ann_src(q["ty"]))
            r = walk(v, where + "." + k)
            if r:
                return r
        return None

    r = walk(cfg, "opt")
    if r:
        return r
    for c in ctors or []:
        params = by_path.get(c["target"])
        for k, a in c["args"].items():
            q = param_of(params or [], k)
            if q is not None and a == NONE_LIT and q["ty"][0] in ("scalar", "cls", "list", "dict"):
                return "%s was constructed with %s=None although the parameter is not Optional" % (c["target"].split(".")[-1], k)
    return None


FAULTS = ["wrong-class", "non-class", "missing-import", "unknown-key", "ill-typed", "missing-required", "abstract-bare", "ambiguous-name"]


def has_dk_before_change(fam, T, sources):
    """finding class C14-stale-dict-kwargs: the sequences whose outcome the finding changes, i.e. an earlier source set
    dict_kwargs and a later source changes the class WITHOUT dict_kwargs of its own (at any nesting level).  A class
    change whose source carries its own dict_kwargs is NOT in the class: it is judged against the property."""
    try:
        return json.dumps(reference(fam, T, sources), sort_keys=True, default=repr) != json.dumps(reference(fam, T, sources, stale_dk=True), sort_keys=True, default=repr)
    except Exception:  # noqa: BLE001
        return False


def state_classes(st):
    if not isinstance(st, dict) or "t" not in st:
        return None
    return {"t": st["t"], "c": {k: state_classes(v) for k, v in st["ia"].items() if isinstance(v, dict)}}


def state_has_dk(st):
    if not isinstance(st, dict) or "t" not in st:
        return False
    return bool(st["dk"]) or any(state_has_dk(v) for v in st["ia"].values())


# ---------------------------------------------------------------------------------------------
# evaluation
# ---------------------------------------------------------------------------------------------
def oracle(fam, T, sources, real, stale_dk=False):
    """the property on the real code; returns a description or None (stale_dk: judge against the finding's behaviour)"""
    exp = reference(fam, T, sources, stale_dk)
    if real["kind"] not in ("ok", "reject"):
        return "parsing neither succeeds nor raises ArgumentError: %s %s" % (real["kind"], real.get("msg", ""))
    if real["kind"] == "ok" and real.get("cfg") is not None:
        vp = validity_problem(fam, real["cfg"], real.get("ctors"))
        if vp:
            return "the accepted configuration is not valid for the named class: " + vp
    if exp[0] == "reject":
        if real["kind"] == "ok":
            return "a value that must be rejected (%s) is accepted: %s" % (exp[1], json.dumps(real["cfg"])[:300])
        return None
    if real["kind"] == "reject":
        return "a valid configuration is rejected: %s" % real.get("msg", "")[:300]
    want = canon_state(fam, exp[1])
    if real["cfg"] != want:
        return "parsed configuration differs: got %s expected %s" % (json.dumps(real["cfg"], sort_keys=True)[:400], json.dumps(want, sort_keys=True)[:400])
    if exp[1] is None:
        return None
    if "inst_error" in real:
        if state_has_unaccepted_dk(fam, exp[1]):
            return None                   # dict_kwargs the class does not accept: outside the statement's hypothesis
        return "instantiate_classes fails on an accepted configuration: %s" % real["inst_error"]
    st = exp[1]
    want_type = canonical(fam, target_class(fam, st["t"]))
    if real["type"] != want_type:
        return "instantiate_classes returned a %s, the configuration names %s" % (real["type"], want_type)
    want_log = expected_ctors(fam, st)
    if real["ctors"] != want_log:
        return "constructor calls differ: got %s expected %s" % (json.dumps(real["ctors"])[:400], json.dumps(want_log)[:400])
    if cls_of(fam, st["t"]) and real["attrs"] != want_log[-1]["args"]:
        return "attributes of the instance differ from the init_args: %s vs %s" % (json.dumps(real["attrs"])[:300], json.dumps(want_log[-1]["args"])[:300])
    if not real.get("second_same_log", True) or not real.get("second_distinct", True):
        return "a second instantiate_classes does not build a fresh object with the same constructor calls"
    if not real.get("cfg_unchanged", True):
        return "instantiate_classes changed the configuration it was given"
    return None


def state_has_unaccepted_dk(fam, st):
    if not isinstance(st, dict) or "t" not in st:
        return False
    c = cls_of(fam, st["t"])
    if st["dk"] and not (c and c["kwargs"]):
        return True
    return any(state_has_unaccepted_dk(fam, v) for v in st["ia"].values())


def corr_diff(fam, T, sources, real, m):
    if "err" in m:
        if real["kind"] != "reject":
            return "model rejects (%s), real %s %s" % (m["err"], real["kind"], json.dumps(real.get("cfg"))[:200])
        if real["cat"] != m["err"]:
            return "error class: real %s (%s), model %s" % (real["cat"], real.get("msg", "")[:200], m["err"])
        return None
    if real["kind"] != "ok":
        return "model accepts, real %s %s" % (real["kind"], real.get("msg", "")[:300])
    mc = model_val_to_canon(m["ok"])
    if real["cfg"] != mc:
        return "parse result: real %s, model %s" % (json.dumps(real["cfg"], sort_keys=True)[:400], json.dumps(mc, sort_keys=True)[:400])
    if "ctors" in real and real["ctors"] != model_ctors(m):
        return "constructor log: real %s, model %s" % (json.dumps(real["ctors"])[:400], json.dumps(model_ctors(m))[:400])
    return None


def in_model(fam, T, sources):
    """is the case inside the model's domain (no List/Dict/Union parameters involved)?"""
    return model_ok_params(cls_of(fam, T)["params"])


def shrink_sources(fam, T, sources, still_bad):
    cur = list(sources)
    changed = True
    while changed and len(cur) > 1:
        changed = False
        for i in range(len(cur)):
            cand = cur[:i] + cur[i + 1:]
            try:
                if cand and still_bad(cand):
                    cur, changed = cand, True
                    break
            except Exception:  # noqa: BLE001
                continue
    return cur


def run_cases(ctx: Ctx, cases, origin):
    """cases: [(fam, T, sources)]"""
    lines, index, last_fam = [], [], None
    for i, (fam, T, sources) in enumerate(cases):
        if not in_model(fam, T, sources):
            index.append(None)
            continue
        key = modname(fam)
        if key != last_fam:
            lines.append({"setenv": wire_env(fam)})
            last_fam = key
        index.append(len(lines))
        d = default_of(sources)
        lines.append({"base": canonical(fam, T), "sources": [wire_source(fam, s) for s in sources if s["form"] != "default"], "fuel": 24,
                      "default": wire_raw(fam, d) if d is not None else None})
    model = None
    if lines:
        try:
            model = ctx.driver("ClassPath", lines)
        except MachineryError as ex:
            if ctx.lean_ok:
                raise
            ctx.tie_break("correspondence E10b not runnable (model does not build)", str(ex))
    bad = 0
    for i, (fam, T, sources) in enumerate(cases):
        argv = build_argv(fam, sources)
        real = real_run(fam, T, argv, default=default_of(sources))
        ctx.count()
        ctx.hist("outcome", real["kind"] + (":" + real.get("cat", "") if real["kind"] == "reject" else ""))
        ctx.hist("declared", T)
        ctx.hist("sources", len(sources))
        for s in sources:
            ctx.hist("form", s["form"] + ("/" + s.get("via", "") if s["form"] == "value" else ""))
        if real["kind"] == "ok" and real.get("ctors"):
            ctx.nontrivial(json.dumps([family_src(fam), T, argv]))
        finding = has_dk_before_change(fam, T, sources)
        clash = any(p["name"] in CLASH_NAMES for c in fam["classes"] for p in c["params"])
        dev = oracle(fam, T, sources, real)
        if dev is not None:
            if finding and ctx.is_open(F_STALE_DK) and oracle(fam, T, sources, real, stale_dk=True) is None:
                # exactly what the finding describes (and nothing else)
                ctx.known(F_STALE_DK, "%s (argv %s)" % (dev[:200], json.dumps(argv)[:160]))
            elif clash and ctx.is_open(F_CLASH):
                ctx.known(F_CLASH, "%s (argv %s)" % (dev[:200], json.dumps(argv)[:160]))
            elif reference(fam, T, sources) == ("reject", "noneForScalar") and ctx.is_open(F_NONE):
                ctx.known(F_NONE, "%s (argv %s)" % (dev[:200], json.dumps(argv)[:160]))
            else:
                def still(c):
                    return oracle(fam, T, c, real_run(fam, T, build_argv(fam, c), default=default_of(c))) is not None and not has_dk_before_change(fam, T, c) \
                        and reference(fam, T, c) != ("reject", "noneForScalar")

                small = shrink_sources(fam, T, sources, still) if len(ctx.violations) < 5 else sources
                a2 = build_argv(fam, small)
                r2 = real_run(fam, T, a2, default=default_of(small))
                r2.pop("root", None)
                ctx.violation("class_path handling deviates from the property: %s" % (oracle(fam, T, small, r2) or dev),
                              {"kind": "case", "origin": origin, "family": fam, "declared": T, "sources": small, "argv": a2,
                               "module": family_src(fam), "observed": {k: v for k, v in r2.items() if k != "root"}})
        if model is not None and index[i] is not None and not clash and reference(fam, T, sources) != ("reject", "noneForScalar"):
            d = corr_diff(fam, T, sources, real, model[index[i]])
            if d is not None:
                bad += 1
                if os.environ.get("VERIF_C14_DEBUG"):
                    print("CORR", d[:500], json.dumps(argv)[:300], T, file=sys.stderr)
                if bad <= 3:
                    ctx.tie_break("correspondence E10b (class_path model vs jsonargparse._typehints) disagrees",
                                  json.dumps({"diff": d, "argv": argv, "declared": T, "sources": sources, "module": family_src(fam)}, ensure_ascii=True)[:1900])
    return bad


def metamorphic(ctx: Ctx, fam, T, rng):
    """short notations of one valid explicit spec parse to the same configuration"""
    target = rng.choice([t for t in acceptable(fam, T) if cls_of(fam, t) and not (fam.get("dup") and fam["dup"]["name"] == t)] or [None])
    if target is None:
        return
    ia = {k: v for k, v in gen_ia(rng, fam, target).items() if not isinstance(v, dict)}
    explicit = [{"form": "value", "raw": {"cp": "@" + target, "ia": ia, "dk": None}, "via": "argv"}]
    variants = [
        [{"form": "value", "raw": {"cp": target, "ia": ia, "dk": None}, "via": "argv"}],
        [{"form": "value", "raw": {"cp": "@" + target, "ia": ia, "dk": None}, "via": "config"}],
        [{"form": "value", "raw": {"cp": "^" + target, "ia": ia, "dk": None}, "via": "argv"}],
        [{"form": "value", "raw": {"name": target}, "via": "argv"}] + [{"form": "dotted", "key": [k], "raw": v, "ia_prefix": False} for k, v in ia.items() if v is not None],
        [{"form": "value", "raw": {"name": "@" + target}, "via": "argv"}] + [{"form": "dotted", "key": [k], "raw": v, "ia_prefix": True} for k, v in ia.items() if v is not None],
        [{"form": "value", "raw": {"name": target}, "via": "config"}, {"form": "value", "raw": {"cp": None, "ia": ia, "dk": None}, "via": "argv"}],
        [{"form": "value", "raw": {"name": target}, "via": "argv"}, {"form": "value", "raw": {"bare": ia}, "via": "config"}],
    ]
    if any(v is None for v in ia.values()):
        variants = [v for i, v in enumerate(variants) if i not in (3, 4)]
    if not cls_of(fam, T)["abstract"] and target == T:
        variants.append([{"form": "value", "raw": {"bare": ia}, "via": "argv"}])
        variants.append([{"form": "value", "raw": {"cp": None, "ia": ia, "dk": None}, "via": "argv"}])
    base = real_run(fam, T, build_argv(fam, explicit), twice=False)
    ctx.count()
    for v in variants:
        r = real_run(fam, T, build_argv(fam, v), twice=False)
        ctx.count()
        ctx.hist("metamorphic", "variant")
        if (r["kind"], r.get("cfg"), r.get("ctors")) != (base["kind"], base.get("cfg"), base.get("ctors")):
            ctx.violation("a short notation does not denote the same configuration as the explicit form: %s vs %s" % (json.dumps(r.get("cfg"))[:200], json.dumps(base.get("cfg"))[:200]),
                          {"kind": "metamorphic", "family": fam, "declared": T, "explicit": explicit, "variant": v, "argv_explicit": build_argv(fam, explicit),
                           "argv_variant": build_argv(fam, v), "module": family_src(fam)})


def container_cases(rng, fam):
    """List / Dict / Optional / Union of classes (oracle only): sources for `Holder`"""
    def spec(valid=True):
        t = rng.choice(acceptable(fam, "Dep")) if valid else "Unrel"
        return {"cp": "@" + t, "ia": {k: v for k, v in gen_ia(rng, fam, t).items()}, "dk": None}

    out = []
    for valid in (True, True, False):
        elems = [spec() for _ in range(rng.randint(0, 2))]
        table = {k: spec() for k in rng.sample(["k1", "k2"], rng.randint(0, 2))}
        maybe = spec() if rng.random() < 0.6 else None
        either = spec() if rng.random() < 0.5 else rng.choice(SCALARS["int"])
        if not valid:
            where = rng.choice(["elems", "table", "maybe", "either"])
            if where == "elems":
                elems.append(spec(False))
            elif where == "table":
                table["bad"] = spec(False)
            elif where == "maybe":
                maybe = spec(False)
            else:
                either = spec(False)
        out.append((valid, {"elems": elems, "table": table, "maybe": maybe, "either": either}))
    return out


def run_container(ctx: Ctx, fam, valid, ia):
    """Holder(elems: List[Dep], maybe: Optional[Dep], either: Union[Dep, int], table: Dict[str, Dep])"""
    j = {"class_path": modname(fam) + ".Holder", "init_args": {k: (raw_to_json(fam, v) if isinstance(v, dict) and "cp" in v else
                                                                      [raw_to_json(fam, x) for x in v] if isinstance(v, list) else
                                                                      {kk: raw_to_json(fam, x) for kk, x in v.items()} if isinstance(v, dict) else v)
                                                                  for k, v in ia.items()}}
    from jsonargparse import ArgumentError, ArgumentParser

    mod = module_for(fam)
    parser = ArgumentParser(exit_on_error=False)
    parser.add_argument("--opt", type=mod.Holder)
    ctx.count()
    ctx.hist("container", "valid" if valid else "wrong-class")
    replay = {"kind": "container", "family": fam, "value": j, "module": family_src(fam), "valid": valid}
    try:
        cfg = parser.parse_args(["--opt", json.dumps(j)])
    except ArgumentError as ex:
        if valid:
            ctx.violation("a valid List/Dict/Optional/Union-of-class configuration is rejected: %s" % str(ex)[:200], replay)
        return
    except Exception as ex:  # noqa: BLE001
        ctx.violation("parsing a List/Dict/Optional/Union-of-class configuration raises %s" % type(ex).__name__, replay)
        return
    if not valid:
        ctx.violation("a class that is not a subclass of the declared element type is accepted inside a container", replay)
        return
    mod.LOG.clear()
    init = parser.instantiate_classes(cfg)
    log = list(mod.LOG)
    mod.LOG.clear()
    h = init.opt
    specs = list(ia["elems"]) + ([ia["maybe"]] if ia["maybe"] is not None else []) + ([ia["either"]] if isinstance(ia["either"], dict) else []) + list(ia["table"].values())
    objs = list(h.elems) + ([h.maybe] if ia["maybe"] is not None else []) + ([h.either] if isinstance(ia["either"], dict) else []) + list(h.table.values())
    want = sorted(s["cp"][1:] for s in specs) + ["Holder"]
    got = [n for n, _, _, _ in log]
    problems = []
    if sorted(got[:-1]) + got[-1:] != want:
        problems.append("constructor calls %s, expected one per spec and the Holder last: %s" % (got, want))
    for s, o in zip(specs, objs):
        if type(o).__name__ != target_class(fam, s["cp"][1:]):
            problems.append("element built as %s, spec names %s" % (type(o).__name__, s["cp"]))
    if not isinstance(ia["either"], dict) and h.either != ia["either"]:
        problems.append("Union[Dep, int] value changed")
    if ia["maybe"] is None and h.maybe is not None:
        problems.append("Optional[Dep]=None became an object")
    if len(set(id(o) for o in objs)) != len(objs):
        problems.append("one object passed for two specs")
    if problems:
        ctx.violation("List/Dict/Optional/Union-of-class parameters: " + "; ".join(problems)[:300], replay)
    elif log:
        ctx.nontrivial(json.dumps(["container", family_src(fam), j]))


# ---------------------------------------------------------------------------------------------
# Dict[str, Base] / List[Base] arguments with SEVERAL sources (oracle only): every key / item keeps ITS OWN earlier class
# A container source is {"op": "set", "items": [[key, raw]] | [raw], "via": "argv"|"config"}
#   | {"op": "key", "key": k, "raw": raw}            --table.k=<value>   (dict: the other keys stay)
#   | {"op": "last", "param": name, "raw": scalar}   --elems.name=value   (list: an init arg of the last item)
# ---------------------------------------------------------------------------------------------
def strip_dk(raw):
    if isinstance(raw, dict) and "name" not in raw and "bare" not in raw:
        raw = dict(raw, dk=None)
        if raw.get("ia"):
            raw["ia"] = {k: strip_dk(v) for k, v in raw["ia"].items()}
    return raw


def short_form_for(rng, fam, st):
    """init_args without class_path (or a bare dict) that are valid for the class the key / item already has"""
    ps = [p for p in target_params(fam, st["t"]) if p["ty"][0] in ("scalar", "optScalar")]
    kv = {}
    for p in (rng.sample(ps, rng.randint(1, min(2, len(ps)))) if ps else []):
        kv[p["name"]] = rng.choice(SCALARS[p["ty"][1]])
    return {"bare": kv} if kv and rng.random() < 0.4 else {"cp": None, "ia": kv, "dk": None}


def container_multi_cases(rng, fam):
    out = []
    T = "Base"
    for ckind in ("dict", "list", "dict", "list"):
        n = rng.randint(2, 3)
        keys = rng.sample(["enc", "dec", "aux", "k1", "k2"], n)
        try:
            first = []
            for _ in range(n):
                raw = strip_dk(gen_spec_raw(rng, fam, T))
                first.append(raw)
            states = [ref_apply(fam, T, None, r) for r in first]
            second = [short_form_for(rng, fam, st) for st in states]
            if rng.random() < 0.25:
                second[rng.randrange(n)] = {"name": name_notation(rng, fam, T, rng.choice([t for t in acceptable(fam, T) if cls_of(fam, t)]))}
        except Reject:
            continue
        order = list(range(n))
        if ckind == "dict" and rng.random() < 0.5:
            rng.shuffle(order)
        if ckind == "dict":
            srcs = [{"op": "set", "items": [[keys[i], first[i]] for i in range(n)], "via": rng.choice(["argv", "config"])},
                    {"op": "set", "items": [[keys[i], second[i]] for i in order], "via": rng.choice(["argv", "config"])}]
            if rng.random() < 0.5:
                i = rng.randrange(n)
                try:
                    st = ref_container(fam, T, ckind, srcs, final=False)
                    srcs.append({"op": "key", "key": keys[i], "raw": short_form_for(rng, fam, st[keys[i]])})
                except Reject:
                    pass
        else:
            srcs = [{"op": "set", "items": list(first), "via": rng.choice(["argv", "config"])},
                    {"op": "set", "items": list(second), "via": rng.choice(["argv", "config"])}]
            if rng.random() < 0.4:
                # --elems+=<value>: a new item with an explicit class
                srcs.append({"op": "append", "raw": strip_dk(gen_spec_raw(rng, fam, T))})
            if rng.random() < 0.5:
                try:
                    st = ref_container(fam, T, ckind, srcs, final=False)
                    ps = [p for p in target_params(fam, st[-1]["t"]) if p["ty"][0] == "scalar" and p["ty"][1] != "str"]
                    if ps:
                        p = rng.choice(ps)
                        srcs.append({"op": "last", "param": p["name"], "raw": rng.choice(SCALARS[p["ty"][1]])})
                except Reject:
                    pass
        out.append((fam, ckind, srcs))
    return out


def ref_container(fam, T, ckind, sources, final=True):
    state = None
    for s in sources:
        if s["op"] == "set":
            if ckind == "dict":
                state = {k: ref_apply(fam, T, (state or {}).get(k), raw) for k, raw in s["items"]}
            else:
                prev = state if isinstance(state, list) and len(state) == len(s["items"]) else [None] * len(s["items"])
                state = [ref_apply(fam, T, prev[i], raw) for i, raw in enumerate(s["items"])]
        elif s["op"] == "key":
            state = dict(state or {})
            state[s["key"]] = ref_apply(fam, T, state.get(s["key"]), s["raw"])
        elif s["op"] == "append":
            state = list(state or []) + [ref_apply(fam, T, None, s["raw"])]
        elif s["op"] == "deep":
            # the property: a dotted sub-option addresses an init arg of the entry, like for a plain class argument
            state = dict(state or {})
            k0 = s["key"][0]
            state[k0] = ref_dotted(fam, T, state.get(k0), [x for x in s["key"][1:] if x != "init_args"], s["raw"])
        else:
            state = list(state)
            state[-1] = ref_dotted(fam, T, state[-1], [s["param"]], s["raw"])
    if not final or state is None:
        return state
    if ckind == "dict":
        return {k: ref_finalize(fam, v) for k, v in state.items()}
    return [ref_finalize(fam, v) for v in state]


def container_argv(fam, ckind, sources):
    opt = "table" if ckind == "dict" else "elems"
    argv = []
    for s in sources:
        if s["op"] == "set":
            j = {k: raw_to_json(fam, r) for k, r in s["items"]} if ckind == "dict" else [raw_to_json(fam, r) for r in s["items"]]
            argv += ["--config", json.dumps({opt: j})] if s["via"] == "config" else ["--" + opt, json.dumps(j)]
        elif s["op"] == "key":
            j = raw_to_json(fam, s["raw"])
            argv.append("--%s.%s=%s" % (opt, s["key"], j if isinstance(j, str) else json.dumps(j)))
        elif s["op"] == "append":
            j = raw_to_json(fam, s["raw"])
            argv.append("--%s+=%s" % (opt, j if isinstance(j, str) else json.dumps(j)))
        elif s["op"] == "deep":
            argv.append("--%s.%s=%s" % (opt, ".".join(s["key"]), s["text"]))
        else:
            argv.append("--%s.%s=%s" % (opt, s["param"], text_of(s["raw"])))
    return argv


def container_real(fam, ckind, sources):
    """run the sequence on a real parser: {"kind": ok|reject|crash, "cat", "msg", "cfg": canonical, "ctors", "objs"}"""
    from typing import Dict, List

    from jsonargparse import ArgumentError, ArgumentParser

    mod = module_for(fam)
    base = getattr(mod, "Base")
    parser = ArgumentParser(exit_on_error=False)
    parser.add_argument("--config", action="config")
    parser.add_argument("--table", type=Dict[str, base])
    parser.add_argument("--elems", type=List[base])
    argv = container_argv(fam, ckind, sources)
    err = io.StringIO()
    try:
        with contextlib.redirect_stderr(err):
            cfg = parser.parse_args(argv)
    except ArgumentError as ex:
        return {"kind": "reject", "cat": err_category(str(ex)), "msg": str(ex).replace("\n", " | ")[:300]}
    except Exception as ex:  # noqa: BLE001
        return {"kind": "crash", "msg": "%s: %s" % (type(ex).__name__, str(ex)[:200])}
    got = cfg.get("table" if ckind == "dict" else "elems")
    out = {"kind": "ok"}
    out["cfg"] = {k: canon_real(v) for k, v in (got or {}).items()} if ckind == "dict" else [canon_real(v) for v in (got or [])]
    mod.LOG.clear()
    try:
        init = parser.instantiate_classes(cfg)
    except Exception as ex:  # noqa: BLE001
        mod.LOG.clear()
        out["inst_error"] = "%s: %s" % (type(ex).__name__, str(ex)[:200])
        return out
    log = list(mod.LOG)
    mod.LOG.clear()
    ids = {oid: i for i, (_, oid, _, _) in enumerate(log)}
    out["ctors"] = [{"target": canonical(fam, name),
                     "args": {k: ({"obj": ids[id(v)]} if id(v) in ids and not isinstance(v, (int, str, float, bool, type(None))) else {"lit": lit(v)}) for k, v in args.items()},
                     "kwargs": {k: {"lit": lit(v)} for k, v in kwargs.items()}} for name, _, args, kwargs in log]
    objs = init.get("table" if ckind == "dict" else "elems")
    out["objs"] = objs
    out["obj_idx"] = ([[k, ids.get(id(o))] for k, o in objs.items()] if ckind == "dict" else [ids.get(id(o)) for o in objs]) if objs is not None else None
    return out


def container_multi_problem(fam, ckind, sources, real=None):
    """the property on one multi-source sequence; returns (description | None, instantiated-something)"""
    T = "Base"
    try:
        exp = ("ok", ref_container(fam, T, ckind, sources))
    except Reject as ex:
        exp = ("reject", str(ex))
    real = real or container_real(fam, ckind, sources)
    if real["kind"] == "crash":
        return "parsing a %s-of-class configuration raises %s" % (ckind, real["msg"]), False
    if real["kind"] == "reject":
        if exp[0] == "ok":
            return "a valid multi-source %s-of-class configuration is rejected: %s" % (ckind, real["msg"]), False
        return None, False
    if exp[0] == "reject":
        return "a %s-of-class configuration that must be rejected (%s) is accepted" % (ckind, exp[1]), False
    got_c = real["cfg"]
    if ckind == "dict":
        want_c = {k: canon_state(fam, v) for k, v in exp[1].items()}
        order = list(exp[1])
    else:
        want_c = [canon_state(fam, v) for v in exp[1]]
        order = list(range(len(exp[1])))
    if got_c != want_c:
        def at(c, k):
            return c.get(k) if ckind == "dict" else (c[k] if k < len(c) else None)

        bad = [k for k in order if at(got_c, k) != at(want_c, k)]
        k = bad[0] if bad else None
        return "%s-of-class: entry %r does not keep its own class / init_args across sources: got %s expected %s" % (
            ckind, k, json.dumps(at(got_c, k) if k is not None else got_c, sort_keys=True)[:260],
            json.dumps(at(want_c, k) if k is not None else want_c, sort_keys=True)[:260]), False
    if "inst_error" in real:
        return "instantiate_classes fails on an accepted %s-of-class configuration: %s" % (ckind, real["inst_error"]), False
    objs = real["objs"]
    items = [(k, objs[k], exp[1][k]) for k in order]
    want_n = sum(len(expected_ctors(fam, st)) for _, _, st in items)
    if len(real["ctors"]) != want_n:
        return "%s-of-class: %d constructor calls, expected %d (one per spec)" % (ckind, len(real["ctors"]), want_n), True
    for k, obj, st in items:
        tname = ("defs2." if type(obj).__module__.endswith(".defs2") else "") + type(obj).__name__
        if canonical(fam, tname) != canonical(fam, target_class(fam, st["t"])):
            return "%s-of-class: entry %r was built as %s, the configuration names %s" % (ckind, k, type(obj).__name__, target_class(fam, st["t"])), True
        if cls_of(fam, st["t"]):
            for p in target_params(fam, st["t"]):
                v = st["ia"][p["name"]]
                if not isinstance(v, dict) and lit(getattr(obj, p["name"])) != lit(v):
                    return "%s-of-class: entry %r has %s=%r, configured %r" % (ckind, k, p["name"], getattr(obj, p["name"]), v), True
    return None, bool(real["ctors"])


def container_model_line(fam, ckind, sources):
    srcs = []
    for s in sources:
        if s["op"] == "set":
            raw = {"dct": [[k, wire_raw(fam, r)] for k, r in s["items"]]} if ckind == "dict" else {"lst": [wire_raw(fam, r) for r in s["items"]]}
            srcs.append({"raw": raw, "append": False})
        elif s["op"] == "key":
            srcs.append({"raw": {"nested": [[s["key"]], wire_raw(fam, s["raw"])]}, "append": False})
        elif s["op"] == "append":
            srcs.append({"raw": wire_raw(fam, s["raw"]), "append": True})
        elif s["op"] == "deep":
            # --table.KEY.init_args.NAME=text: NestedArg(key="KEY.init_args.NAME", val=text)
            srcs.append({"raw": {"nested": [s["key"], {"lit": ["str", s["text"]]}]}, "append": False})
        else:
            srcs.append({"raw": {"nested": [[s["param"]], wire_raw(fam, s["raw"])]}, "append": False})
    return {"aty": ["dictOf" if ckind == "dict" else "listOf", canonical(fam, "Base")], "sources": srcs, "fuel": 24}


def container_corr_diff(fam, ckind, real, m):
    if "err" in m:
        if real["kind"] != "reject":
            return "model rejects (%s), real %s %s" % (m["err"], real["kind"], json.dumps(real.get("cfg"))[:200])
        if real["cat"] != m["err"]:
            return "error class: real %s (%s), model %s" % (real["cat"], real.get("msg", "")[:200], m["err"])
        return None
    if real["kind"] != "ok":
        return "model accepts, real %s %s" % (real["kind"], real.get("msg", "")[:300])
    mc = model_val_to_canon(m["ok"])
    if real["cfg"] != mc:
        return "parse result: real %s, model %s" % (json.dumps(real["cfg"], sort_keys=True)[:400], json.dumps(mc, sort_keys=True)[:400])
    if "ctors" in real:
        if real["ctors"] != model_ctors(m):
            return "constructor log: real %s, model %s" % (json.dumps(real["ctors"])[:400], json.dumps(model_ctors(m))[:400])
        arg = m.get("arg") or {}
        midx = arg.get("dct") if ckind == "dict" else arg.get("lst")
        if real.get("obj_idx") is not None and midx != real["obj_idx"]:
            return "element objects: real %s, model %s" % (json.dumps(real["obj_idx"]), json.dumps(midx))
    return None


def run_container_multi_batch(ctx: Ctx, cases, origin):
    """[(fam, ckind, sources)]: oracle + model correspondence"""
    lines, index, last = [], [], None
    for fam, ckind, sources in cases:
        if modname(fam) != last:
            lines.append({"setenv": wire_env(fam)})
            last = modname(fam)
        index.append(len(lines))
        lines.append(container_model_line(fam, ckind, sources))
    model = None
    if lines:
        try:
            model = ctx.driver("ClassPath", lines)
        except MachineryError as ex:
            if ctx.lean_ok:
                raise
            ctx.tie_break("correspondence E10b not runnable (model does not build)", str(ex))
    bad = 0
    for i, (fam, ckind, sources) in enumerate(cases):
        ctx.count()
        ctx.hist("container_multi", ckind + "/%d sources" % len(sources))
        real = container_real(fam, ckind, sources)
        deep = any(s["op"] == "deep" for s in sources)
        dev, built = container_multi_problem(fam, ckind, sources, real)
        if dev is not None and deep and ctx.is_open(F_DEEP):
            ctx.known(F_DEEP, "%s (argv %s)" % (dev[:200], json.dumps(container_argv(fam, ckind, sources))[:200]))
        elif dev is not None:
            ctx.violation("Dict/List-of-class argument with several sources: " + dev,
                          {"kind": "container_multi", "origin": origin, "family": fam, "ckind": ckind, "sources": sources,
                           "argv": container_argv(fam, ckind, sources), "module": family_src(fam)})
        elif built:
            ctx.nontrivial(json.dumps(["container_multi", family_src(fam), ckind, container_argv(fam, ckind, sources)]))
        if model is not None:
            d = container_corr_diff(fam, ckind, real, model[index[i]])
            if d is not None:
                bad += 1
                if os.environ.get("VERIF_C14_DEBUG"):
                    print("CORR-CONTAINER", d[:500], json.dumps(container_argv(fam, ckind, sources))[:400], file=sys.stderr)
                if bad <= 3:
                    ctx.tie_break("correspondence E10b (List/Dict-of-class model vs jsonargparse._typehints) disagrees",
                                  json.dumps({"diff": d, "argv": container_argv(fam, ckind, sources), "ckind": ckind, "sources": sources,
                                              "module": family_src(fam)}, ensure_ascii=True)[:1900])
    return bad


def run_container_multi(ctx: Ctx, fam, ckind, sources, origin):
    ctx.count()
    ctx.hist("container_multi", ckind + "/%d sources" % len(sources))
    dev, built = container_multi_problem(fam, ckind, sources)
    if dev is not None:
        ctx.violation("Dict/List-of-class argument with several sources: " + dev,
                      {"kind": "container_multi", "origin": origin, "family": fam, "ckind": ckind, "sources": sources,
                       "argv": container_argv(fam, ckind, sources), "module": family_src(fam)})
    elif built:
        ctx.nontrivial(json.dumps(["container_multi", family_src(fam), ckind, container_argv(fam, ckind, sources)]))


# ---------------------------------------------------------------------------------------------
# SEVERAL class-typed options in one parser, fed by several sources (config sources holding several options, argv).
# The property is per option: what an option holds in the end depends on ITS OWN sources only (a class change of one
# option discards exactly the init_args its new class does not accept, whatever the other options are called or hold).
# A case: {"names": [option names in add order], "types": {name: T}, "steps": [step]},
#   step = {"config": [[name, raw]], "via": "config"|"cfgfile"} | {"opt": name, "src": source}
# Option names include pairs where one name is a string prefix of the other (opt / opt2, model / model_ema).
# ---------------------------------------------------------------------------------------------
OPTION_NAME_SETS = [["opt", "opt2"], ["opt2", "opt"], ["model", "model_ema"], ["model_ema", "sched", "model"], ["net", "net_d", "netx"],
                    ["a", "ab", "abc"], ["opt", "sched"], ["enc", "dec"], ["opt_b", "opt", "o"], ["optim", "opt"]]


def multi_sources_of(case, name):
    out = []
    for st in case["steps"]:
        if "config" in st:
            for n, raw in st["config"]:
                if n == name:
                    out.append({"form": "value", "raw": raw, "via": "config"})
        elif st["opt"] == name:
            out.append(st["src"])
    return out


def multi_argv(fam, case):
    argv = []
    for st in case["steps"]:
        if "config" in st:
            j = {n: raw_to_json(fam, raw) for n, raw in st["config"]}
            if st.get("via") == "cfgfile":
                name = os.path.join(pkg_dir(), "cfg_%s.json" % hashlib.sha256(json.dumps(j, sort_keys=True).encode()).hexdigest()[:12])
                with open(name, "w") as f:
                    f.write(json.dumps(j))
                argv.append("--config=" + name)
            else:
                argv += ["--config", json.dumps(j)]
        else:
            argv += build_argv(fam, [st["src"]], opt=st["opt"])
    return argv


def multi_skip(fam, case):
    """sequences that fall into an open finding's class for one of the options are not judged here"""
    for n in case["names"]:
        srcs = multi_sources_of(case, n)
        if has_dk_before_change(fam, case["types"][n], srcs) or reference(fam, case["types"][n], srcs) == ("reject", "noneForScalar"):
            return True
    return False


def multi_real(fam, case):
    from jsonargparse import ArgumentError, ArgumentParser

    mod = module_for(fam)
    argv = multi_argv(fam, case)
    parser = ArgumentParser(exit_on_error=False)
    parser.add_argument("--config", action="config")
    for n in case["names"]:
        kw = {}
        if any("opt" in st and st["opt"] == n and st["src"].get("via") == "file" for st in case["steps"]):
            kw["enable_path"] = True
        parser.add_argument("--" + n, type=getattr(mod, case["types"][n]), **kw)
    err = io.StringIO()
    try:
        with contextlib.redirect_stderr(err):
            cfg = parser.parse_args(list(argv))
    except ArgumentError as ex:
        return {"kind": "reject", "cat": err_category(str(ex)), "msg": str(ex).replace("\n", " | ")[:400]}
    except SystemExit as ex:
        return {"kind": "exit:%r" % (ex.code,)}
    except Exception as ex:  # noqa: BLE001
        return {"kind": "crash", "msg": "%s: %s" % (type(ex).__name__, str(ex)[:300])}
    out = {"kind": "ok", "cfg": {n: (canon_real(cfg.get(n)) if cfg.get(n) is not None else None) for n in case["names"]}}
    mod.LOG.clear()
    try:
        init = parser.instantiate_classes(cfg)
    except Exception as ex:  # noqa: BLE001
        mod.LOG.clear()
        out["inst_error"] = "%s: %s" % (type(ex).__name__, str(ex)[:300])
        return out
    log = list(mod.LOG)
    mod.LOG.clear()
    ids = {oid: i for i, (_, oid, _, _) in enumerate(log)}
    out["ctors"] = [{"target": canonical(fam, name),
                     "args": {k: ({"obj": ids[id(v)]} if id(v) in ids and not isinstance(v, (int, str, float, bool, type(None))) else {"lit": lit(v)}) for k, v in args.items()},
                     "kwargs": {k: {"lit": lit(v)} for k, v in kwargs.items()}} for name, _, args, kwargs in log]
    out["types"] = {}
    out["obj_idx"] = {}
    for n in case["names"]:
        obj = init.get(n)
        if obj is None:
            out["types"][n] = None
            continue
        tname = ("defs2." if type(obj).__module__.endswith(".defs2") else "") + type(obj).__name__
        out["types"][n] = canonical(fam, tname)
        out["obj_idx"][n] = ids.get(id(obj))
    return out


def multi_expected(fam, case):
    """('ok', {name: final state | None}) | ('reject', name, category): every option judged on its own sources"""
    states = {}
    for n in case["names"]:
        srcs = multi_sources_of(case, n)
        if not srcs:
            states[n] = None
            continue
        r = reference(fam, case["types"][n], srcs)
        if r[0] == "reject":
            return ("reject", n, r[1])
        states[n] = r[1]
    return ("ok", states)


def multi_problem(fam, case, real):
    exp = multi_expected(fam, case)
    if real["kind"] not in ("ok", "reject"):
        return "parsing neither succeeds nor raises ArgumentError: %s %s" % (real["kind"], real.get("msg", ""))
    if exp[0] == "reject":
        if real["kind"] == "ok":
            return "option %s: a value that must be rejected (%s) is accepted: %s" % (exp[1], exp[2], json.dumps(real["cfg"].get(exp[1]))[:300])
        return None
    if real["kind"] == "reject":
        return "a valid configuration of several class-typed options is rejected: %s" % real.get("msg", "")[:300]
    for n in case["names"]:
        want = canon_state(fam, exp[1][n])
        if real["cfg"][n] != want:
            return "option %s does not hold what ITS sources configure: got %s expected %s" % (
                n, json.dumps(real["cfg"][n], sort_keys=True)[:300], json.dumps(want, sort_keys=True)[:300])
        if real["cfg"][n] is not None:
            vp = validity_problem(fam, real["cfg"][n])
            if vp:
                return "option %s: the accepted configuration is not valid for the named class: %s" % (n, vp)
    if "inst_error" in real:
        if any(state_has_unaccepted_dk(fam, st) for st in exp[1].values()):
            return None
        return "instantiate_classes fails on an accepted configuration: %s" % real["inst_error"]
    # one constructor call per spec; the options are built in the order they were added, each with its own children first
    want_log = []
    for n in case["names"]:
        st = exp[1][n]
        if st is None:
            if real["types"].get(n) is not None:
                return "option %s was not given but an object was built" % n
            continue
        off = len(want_log)
        for c in expected_ctors(fam, st):
            want_log.append({"target": c["target"], "args": {k: ({"obj": a["obj"] + off} if "obj" in a else a) for k, a in c["args"].items()}, "kwargs": c["kwargs"]})
        want_type = canonical(fam, target_class(fam, st["t"]))
        if real["types"].get(n) != want_type:
            return "option %s: instantiate_classes returned a %s, the configuration names %s" % (n, real["types"].get(n), want_type)
        if cls_of(fam, st["t"]) and real["obj_idx"].get(n) != len(want_log) - 1:
            return "option %s: the object handed out is not the one built from its own spec (call %s, expected call %d)" % (n, real["obj_idx"].get(n), len(want_log) - 1)
    if real["ctors"] != want_log:
        return "constructor calls differ: got %s expected %s" % (json.dumps(real["ctors"])[:400], json.dumps(want_log)[:400])
    return None


def multi_cases(rng, fam):
    out = []
    types_pool = ["Base", "Base", "Base", "SubA", "Dep"]
    # (a) rounds of config sources that each hold (most of) the options: explicit specs (the class may change from round
    #     to round) and short forms valid for the class the option has at that point
    for _ in range(2):
        names = list(rng.choice(OPTION_NAME_SETS))
        types = {n: rng.choice(types_pool) for n in names}
        state = {n: None for n in names}
        steps = []
        for rnd in range(rng.randint(2, 3)):
            entries = []
            for n in (names if rng.random() < 0.7 else rng.sample(names, len(names))):
                if rng.random() < 0.15:
                    continue
                T = types[n]
                try:
                    if state[n] is not None and rng.random() < 0.3:
                        raw = short_form_for(rng, fam, state[n])
                    else:
                        raw = strip_dk(gen_spec_raw(rng, fam, T))
                    state[n] = ref_apply(fam, T, state[n], raw)
                except Reject:
                    continue
                entries.append([n, raw])
            if entries:
                steps.append({"config": entries, "via": rng.choice(["config", "config", "cfgfile"])})
            if rng.random() < 0.3:
                n = rng.choice(names)
                if state[n] is not None:
                    ps = [p for p in target_params(fam, state[n]["t"]) if p["ty"][0] == "scalar"]
                    if ps:
                        p = rng.choice(ps)
                        src = {"form": "dotted", "key": [p["name"]], "raw": rng.choice(SCALARS[p["ty"][1]]), "ia_prefix": rng.random() < 0.4}
                        try:
                            state[n] = ref_step(fam, types[n], state[n], src)
                            steps.append({"opt": n, "src": src})
                        except Reject:
                            pass
        out.append((fam, {"names": names, "types": types, "steps": steps}))
    # (b) independent per-option source sequences (one of them possibly with an injected fault), interleaved; config
    #     sources of different options that end up next to each other share one --config
    names = list(rng.choice(OPTION_NAME_SETS))
    types = {n: rng.choice(types_pool) for n in names}
    per = {}
    faulty = rng.choice(names) if rng.random() < 0.3 else None
    for n in names:
        srcs = []
        for _ in range(4):
            fault = rng.choice(FAULTS) if n == faulty else None
            if fault == "abstract-bare" and not cls_of(fam, types[n])["abstract"]:
                fault = "unknown-key"
            srcs = gen_sources(rng, fam, types[n], rng.randint(1, 3), fault=fault)
            if srcs and srcs[0]["form"] != "default":
                break
            srcs = []
        per[n] = list(srcs)
    steps = []
    while any(per.values()):
        n = rng.choice([k for k, v in per.items() if v])
        # the faulty option's last source comes last of all: what the other options hold must not hide the rejection
        if n == faulty and len(per[n]) == 1 and any(v for k, v in per.items() if k != n):
            continue
        src = per[n].pop(0)
        if src["form"] == "value" and src.get("via") == "config":
            if steps and "config" in steps[-1] and all(x[0] != n for x in steps[-1]["config"]) and rng.random() < 0.6:
                steps[-1]["config"].append([n, src["raw"]])
            else:
                steps.append({"config": [[n, src["raw"]]], "via": "config"})
        else:
            steps.append({"opt": n, "src": src})
    out.append((fam, {"names": names, "types": types, "steps": steps}))
    return out


def walk_probe(fam, case):
    """the real work-list walk of the merge on the configuration the case parses to (both sides hold the same class specs):
    (flat keys, keys with a class spec on both sides, keys the walk really handled at the top level) or None"""
    import jsonargparse._typehints as th
    from jsonargparse import ArgumentParser
    from jsonargparse._common import parser_context
    from jsonargparse._actions import _find_action

    mod = module_for(fam)
    parser = ArgumentParser(exit_on_error=False)
    parser.add_argument("--config", action="config")
    for n in case["names"]:
        parser.add_argument("--" + n, type=getattr(mod, case["types"][n]),
                            **({"enable_path": True} if any("opt" in st and st["opt"] == n and st["src"].get("via") == "file" for st in case["steps"]) else {}))
    try:
        with contextlib.redirect_stderr(io.StringIO()):
            cfg = parser.parse_args(multi_argv(fam, case))
    except BaseException:  # noqa: BLE001
        return None
    cfg.pop("config", None)
    prev, cur = cfg.clone(), cfg.clone()
    keys = list(prev.keys(branches=True))
    both = [k for k in keys if th.is_subclass_spec(prev.get(k)) and th.is_subclass_spec(cur.get(k)) and isinstance(_find_action(parser, k), th.ActionTypeHint)]
    handled, depth = [], [0]
    orig_static = th.ActionTypeHint.__dict__["discard_init_args_on_class_path_change"]
    orig_mod = th.discard_init_args_on_class_path_change

    def rec_static(parser_or_action, prev_cfg, cfg_):
        depth[0] += 1
        try:
            return orig_static.__func__(parser_or_action, prev_cfg, cfg_)
        finally:
            depth[0] -= 1

    def rec_mod(action, prev_val, val):
        if depth[0] == 1:
            handled.append(action.dest)
        return orig_mod(action, prev_val, val)

    th.ActionTypeHint.discard_init_args_on_class_path_change = staticmethod(rec_static)
    th.discard_init_args_on_class_path_change = rec_mod
    try:
        with parser_context(parent_parser=parser):
            th.ActionTypeHint.discard_init_args_on_class_path_change(parser, prev, cur)
    finally:
        th.ActionTypeHint.discard_init_args_on_class_path_change = orig_static
        th.discard_init_args_on_class_path_change = orig_mod
    return keys, both, handled


def run_walk_correspondence(ctx: Ctx, cases):
    """Lean `discardWalk` (with the separator literal regenerated from the source) against the real walk"""
    probes = []
    for fam, case in cases:
        if not case["steps"]:
            continue
        try:
            pr = walk_probe(fam, case)
        except Exception as ex:  # noqa: BLE001
            ctx.tie_break("correspondence E10b: the work-list walk of the merge cannot be observed any more", "%s: %s" % (type(ex).__name__, str(ex)[:300]))
            return 0
        if pr is not None and pr[1]:
            probes.append(pr)
    if not probes:
        return 0
    try:
        model = ctx.driver("ClassPath", [{"walk": {"keys": k, "both": b}} for k, b, _ in probes])
    except MachineryError as ex:
        if ctx.lean_ok:
            raise
        ctx.tie_break("correspondence E10b not runnable (model does not build)", str(ex))
        return 0
    bad = 0
    for (keys, both, handled), m in zip(probes, model):
        ctx.count()
        ctx.hist("walk", "%d keys/%d handled" % (len(keys), len(handled)))
        if m.get("handled") != handled:
            bad += 1
            if bad <= 2:
                ctx.tie_break("correspondence E10b (work-list walk of ActionTypeHint.discard_init_args_on_class_path_change vs discardWalk) disagrees",
                              json.dumps({"keys": keys, "both": both, "real": handled, "model": m.get("handled")})[:1500])
    return bad


def run_multi(ctx: Ctx, cases, origin):
    for fam, case in cases:
        if not case["steps"] or multi_skip(fam, case):
            continue
        ctx.count()
        real = multi_real(fam, case)
        ctx.hist("multi_option", "%d options/%d steps/%s" % (len(case["names"]), len(case["steps"]), real["kind"]))
        ctx.hist("multi_option_names", "prefix-related" if any(a != b and b.startswith(a) for a in case["names"] for b in case["names"]) else "unrelated")
        dev = multi_problem(fam, case, real)
        if dev is None:
            if real["kind"] == "ok" and real.get("ctors"):
                ctx.nontrivial(json.dumps(["multi", family_src(fam), case["names"], multi_argv(fam, case)]))
            continue

        def still(steps):
            c = dict(case, steps=steps)
            return bool(steps) and not multi_skip(fam, c) and multi_problem(fam, c, multi_real(fam, c)) is not None

        small = dict(case, steps=shrink_sources(fam, None, case["steps"], still) if len(ctx.violations) < 5 else case["steps"])
        r2 = multi_real(fam, small)
        ctx.violation("several class-typed options: %s" % (multi_problem(fam, small, r2) or dev),
                      {"kind": "multi", "origin": origin, "family": fam, "case": small, "argv": multi_argv(fam, small), "module": family_src(fam),
                       "observed": {k: v for k, v in r2.items()}})


# ---------------------------------------------------------------------------------------------
# dataclass-typed arguments given in class_path form: Optional[D], List[D], Dict[str, D], Union[D, Base], Union[Base, D].
# D is a dataclass in its OWN module (c14gen.f_<hash>.dc_<N>) whose simple name N is also the name of a class of the
# family (SubA, SubB: subclasses of Base; Unrel: unrelated) or a fresh name: class paths that differ from D's only in the
# module are in the input space.  A class_path is accepted for D only when it IS D (identity, not name); for a Union with a
# class arm any other class_path goes through the class arm's check; the built object is an instance of exactly the named class.
# A case: {"dc": N, "kind": "optData"|"listData"|"dictData"|"dataOrCls"|"clsOrData", "values": [value, ...]}
#   value = {"cp": "D" | name notation of a family class, "ia": {k: scalar}} | {"bare": {k: scalar}} | None | {"dotted": [k, scalar]}
# ---------------------------------------------------------------------------------------------
F_UNION_DC = "C14-union-dataclass-spec-rebuilt-as-class-arm"
F_UNION_CHANGE = "C14-union-dataclass-class-change-rejected"
DC_NAMES = ["SubA", "SubB", "Unrel", "Settings", "SubC"]
DC_KINDS = ["optData", "listData", "dictData", "dataOrCls", "clsOrData"]


def dc_fields(fam, N):
    c = cls_of(fam, N)
    if c is None:
        return [P("level", ("scalar", "int"), 1), P("tag", ("scalar", "str"), "core")]
    out = []
    for p in c["params"]:
        if p["ty"][0] in ("scalar", "optScalar"):
            d = p["default"]
            if d == "REQ" or is_lazy(d):
                d = SCALARS[p["ty"][1]][0]
            out.append(P(p["name"], tuple(p["ty"]), d))
    return out or [P("level", ("scalar", "int"), 1)]


def dc_path(fam, N):
    return "%s.dc_%s.%s" % (pkgname(fam), N, N)


def dc_class(fam, N):
    module_for(fam)
    key = (fam_hash(fam), "dc", N)
    if key in _PKG["mods"]:
        return getattr(_PKG["mods"][key], N)
    d = os.path.join(pkg_dir(), "c14gen", "f_" + fam_hash(fam))
    fields = dc_fields(fam, N)
    src = "from dataclasses import dataclass\nfrom typing import Optional\n\nfrom .defs import LOG\n\n\n@dataclass\nclass %s:\n" % N
    for line in params_src(fields):
        src += "    %s\n" % line
    src += "\n    def __post_init__(self):\n        LOG.append((%r, id(self), dict(%s), {}))\n" % (
        "dc_%s.%s" % (N, N), ", ".join("%s=self.%s" % (f["name"], f["name"]) for f in fields))
    with open(os.path.join(d, "dc_%s.py" % N), "w") as f:
        f.write(src)
    importlib.invalidate_caches()
    mod = importlib.import_module("%s.dc_%s" % (pkgname(fam), N))
    _PKG["mods"][key] = mod
    return getattr(mod, N)


def dc_type(fam, N, kind):
    from typing import Dict, List, Optional, Union

    D = dc_class(fam, N)
    base = getattr(module_for(fam), "Base")
    return {"optData": Optional[D], "listData": List[D], "dictData": Dict[str, D], "dataOrCls": Union[D, base], "clsOrData": Union[base, D]}[kind]


def dc_value_json(fam, N, v):
    if v is None:
        return None
    if "bare" in v:
        return dict(v["bare"])
    return {"class_path": dc_path(fam, N) if v["cp"] == "D" else full(fam, v["cp"]), "init_args": dict(v["ia"])}


def dc_argv(fam, case):
    argv = []
    for v in case["values"]:
        if isinstance(v, dict) and "dotted" in v:
            argv.append("--opt.%s=%s" % (v["dotted"][0], text_of(v["dotted"][1])))
            continue
        j = dc_value_json(fam, case["dc"], v)
        if case["kind"] == "listData":
            j = [j]
        elif case["kind"] == "dictData":
            j = {"k1": j}
        argv += ["--opt", json.dumps(j)]
    return argv


def dc_fields_ok(fields, kv):
    """the completed field values, or None when a key is not a field / a value does not fit"""
    out = {f["name"]: f["default"] for f in fields}
    for k, v in kv.items():
        f = param_of(fields, k)
        if f is None or isinstance(v, dict):
            return None
        if v is None:
            if f["ty"][0] != "optScalar":
                return None
        elif not scalar_ok(f["ty"][1], v):
            return None
        out[k] = scalar_conv(f["ty"][1], v) if v is not None else None
    return out


def dc_class_arm(fam, raw):
    """does the class arm `Base` take the value (adaptable; required parameters are checked only at the end)?"""
    try:
        ref_apply(fam, "Base", None, raw)
        return True
    except Reject:
        return False


def dc_expected(fam, case):
    """('reject', why) | ('none',) | ('data', fields) | ('cls', final state); plus whether the case is in the finding's class"""
    N, kind = case["dc"], case["kind"]
    fields = dc_fields(fam, N)
    has_cls = kind in ("dataOrCls", "clsOrData")
    cur = None
    finding = False
    for v in case["values"]:
        if v is None:
            if kind != "optData":
                return ("reject", "None"), False
            cur = ("none",)
            continue
        if "dotted" in v:
            k, x = v["dotted"]
            if cur is None or cur[0] == "none":
                return ("reject", "dotted without value"), False
            if cur[0] == "data":
                got = dc_fields_ok(fields, dict(cur[2], **{k: x}))
                if got is None:
                    return ("reject", "field"), False
                cur = ("data", got, dict(cur[2], **{k: x}))
            else:
                try:
                    st = ref_dotted(fam, "Base", cur[2], [k], x)
                    cur = ("cls", None, st)
                except Reject as ex:
                    return ("reject", str(ex)), False
            continue
        if "bare" in v:
            arms = ["data", "cls"] if kind != "clsOrData" else ["cls", "data"]
            nxt = None
            for arm in arms:
                if arm == "data":
                    base_kv = dict(cur[2]) if cur is not None and cur[0] == "data" else {}
                    got = dc_fields_ok(fields, dict(base_kv, **v["bare"]))
                    if got is not None:
                        nxt = ("data", got, dict(base_kv, **v["bare"]))
                        break
                elif has_cls:
                    try:
                        # the arm takes the value when it is adaptable; required parameters are checked at the end of the parse
                        st = ref_apply(fam, "Base", cur[2] if cur is not None and cur[0] == "cls" else None, {"bare": v["bare"]})
                        nxt = ("cls", None, st)
                        break
                    except Reject:
                        pass
            if nxt is None:
                return ("reject", "no arm takes the dict"), False
            cur = nxt
            continue
        # class_path form
        if v["cp"] == "D":
            got = dc_fields_ok(fields, v["ia"])
            if got is None:
                return ("reject", "field"), False
            # class of the open finding: the class arm comes first, is concrete and has a parameter for every given key
            b = cls_of(fam, "Base")
            if kind == "clsOrData" and not b["abstract"] and all(param_of(b["params"], k) for k in v["ia"]):
                finding = True
            cur = ("data", got, dict(v["ia"]))
        else:
            if not has_cls:
                return ("reject", "class_path is not the declared dataclass"), False
            try:
                st = ref_apply(fam, "Base", cur[2] if cur is not None and cur[0] == "cls" else None, {"cp": v["cp"], "ia": v["ia"], "dk": None})
                cur = ("cls", None, st)
            except Reject as ex:
                return ("reject", str(ex)), False
    if cur is not None and cur[0] == "cls":
        try:
            return ("cls", ref_finalize(fam, cur[2])), finding
        except Reject as ex:
            return ("reject", str(ex)), finding
    return cur[:2] if cur else ("none",), finding


def dc_real(fam, case):
    from jsonargparse import ArgumentError, ArgumentParser

    mod = module_for(fam)
    parser = ArgumentParser(exit_on_error=False)
    parser.add_argument("--opt", type=dc_type(fam, case["dc"], case["kind"]))
    err = io.StringIO()
    try:
        with contextlib.redirect_stderr(err):
            cfg = parser.parse_args(dc_argv(fam, case))
    except ArgumentError as ex:
        return {"kind": "reject", "msg": str(ex).replace("\n", " | ")[:300]}
    except Exception as ex:  # noqa: BLE001
        return {"kind": "crash", "msg": "%s: %s" % (type(ex).__name__, str(ex)[:300])}
    mod.LOG.clear()
    try:
        init = parser.instantiate_classes(cfg)
    except Exception as ex:  # noqa: BLE001
        mod.LOG.clear()
        return {"kind": "ok", "inst_error": "%s: %s" % (type(ex).__name__, str(ex)[:300])}
    log = list(mod.LOG)
    mod.LOG.clear()
    obj = init.get("opt")
    if case["kind"] == "listData" and isinstance(obj, list) and len(obj) == 1:
        obj = obj[0]
    elif case["kind"] == "dictData" and isinstance(obj, dict) and list(obj) == ["k1"]:
        obj = obj["k1"]
    out = {"kind": "ok", "calls": [n for n, _, _, _ in log]}
    if obj is None:
        out["type"] = None
    else:
        out["type"] = type(obj).__module__ + "." + type(obj).__qualname__
        out["attrs"] = {k: lit(v) for k, v in vars(obj).items() if isinstance(v, (int, str, float, bool, type(None)))}
        out["last_call_is_obj"] = bool(log) and log[-1][1] == id(obj)
    return out


def dc_problem(fam, case, real):
    exp, finding = dc_expected(fam, case)
    if real["kind"] == "crash":
        return "parsing raises %s" % real["msg"], finding
    if exp[0] == "reject":
        if real["kind"] == "ok":
            return "a value that must be rejected (%s) is accepted and built as %s" % (exp[1], real.get("type")), finding
        return None, finding
    if real["kind"] == "reject":
        return "a valid value for a dataclass-typed argument is rejected: %s" % real["msg"], finding
    if "inst_error" in real:
        return "instantiate_classes fails on an accepted configuration: %s" % real["inst_error"], finding
    if exp[0] == "none":
        return (None if real["type"] is None else "None became a %s" % real["type"]), finding
    if exp[0] == "data":
        want_type = dc_path(fam, case["dc"])
        want_attrs = {k: lit(v) for k, v in exp[1].items()}
    else:
        st = exp[1]
        tc = target_class(fam, st["t"])
        want_type = (pkgname(fam) + ".defs2." + tc[1:]) if tc.startswith("%") else modname(fam) + "." + tc
        want_attrs = {k: lit(v) for k, v in st["ia"].items() if not isinstance(v, dict)} if cls_of(fam, st["t"]) else None
    if real["type"] != want_type:
        return "the class_path / value names %s, instantiate_classes built a %s" % (want_type, real["type"]), finding
    if want_attrs is not None and {k: v for k, v in real["attrs"].items() if k in want_attrs} != want_attrs:
        return "the built %s has %s, configured %s" % (want_type.split(".")[-1], json.dumps(real["attrs"], sort_keys=True)[:200], json.dumps(want_attrs, sort_keys=True)[:200]), finding
    if not real.get("last_call_is_obj"):
        return "the object handed out was not built by the last constructor call (calls %s)" % real["calls"], finding
    return None, finding


def dc_cases(rng, fam):
    out = []
    for _ in range(4):
        N = rng.choice(DC_NAMES)
        if N != "Settings" and cls_of(fam, N) is None:
            continue
        if fam.get("dup") and fam["dup"]["name"] == N:
            continue
        kind = rng.choice(DC_KINDS)
        fields = dc_fields(fam, N)
        fs = rng.sample(fields, rng.randint(1, min(2, len(fields))))
        ia = {f["name"]: rng.choice(SCALARS[f["ty"][1]]) for f in fs}
        r = rng.random()
        if r < 0.3:
            v = {"cp": "D", "ia": ia}
        elif r < 0.75:
            # a class of the family: most often the one that shares D's simple name
            X = N if (cls_of(fam, N) and rng.random() < 0.7) else rng.choice(["SubA", "SubB", "Unrel", "SubC"])
            note = rng.choice(["@", "@", "^", ""]) + X
            if rng.random() < 0.5:
                tp = [p for p in (target_params(fam, X) or []) if p["ty"][0] == "scalar"]
                ia = {p["name"]: rng.choice(SCALARS[p["ty"][1]]) for p in rng.sample(tp, min(len(tp), rng.randint(1, 2)))} or ia
            req = {p["name"]: rng.choice(SCALARS[p["ty"][1]]) for p in (target_params(fam, X) or []) if p["default"] == "REQ" and p["ty"][0] == "scalar"}
            v = {"cp": note, "ia": dict(req, **ia)}
        elif r < 0.92:
            v = {"bare": ia}
        else:
            v = None if kind == "optData" else {"bare": ia}
        values = [v]
        if isinstance(v, dict) and "cp" in v and kind in ("dataOrCls", "clsOrData") and rng.random() < 0.25:
            # a second source of the OTHER member: dataclass after class, class after dataclass (a class change between sources)
            if v["cp"] == "D":
                X = rng.choice(["SubA", "SubB", "SubC"])
                req = {p["name"]: rng.choice(SCALARS[p["ty"][1]]) for p in (target_params(fam, X) or []) if p["default"] == "REQ" and p["ty"][0] == "scalar"}
                values.append({"cp": "@" + X, "ia": req})
            else:
                f = rng.choice(fields)
                values.append({"cp": "D", "ia": {f["name"]: rng.choice(SCALARS[f["ty"][1]])}})
        elif v is not None and kind in ("optData", "dataOrCls") and rng.random() < 0.35:
            f = rng.choice(fields)
            values.append({"dotted": [f["name"], rng.choice(SCALARS[f["ty"][1]])]})
        elif v is not None and kind == "optData" and rng.random() < 0.1:
            values.append(None)
        out.append((fam, {"dc": N, "kind": kind, "values": values}))
    return out


def dc_uses_clash_or_lazy(fam, case):
    """class arm states that involve nested class parameters are left to the single-class checks"""
    exp, _ = dc_expected(fam, case)
    return exp[0] == "cls" and any(isinstance(x, dict) for x in exp[1]["ia"].values())


def dc_kind_change(case):
    """class of the open finding C14-union-dataclass-class-change-rejected: a Union argument receives a class_path of one
    member after a class_path of the other member"""
    if case["kind"] not in ("dataOrCls", "clsOrData"):
        return False
    kinds = [("data" if v["cp"] == "D" else "cls") for v in case["values"] if isinstance(v, dict) and "cp" in v]
    return any(a != b for a, b in zip(kinds, kinds[1:]))


def dc_wire_value(fam, N, v):
    if v is None:
        return {"lit": ["NoneType", "None"]}
    if "dotted" in v:
        return {"nested": [[v["dotted"][0]], {"lit": lit(v["dotted"][1])}]}
    if "bare" in v:
        return {"bare": [[k, {"lit": lit(x)}] for k, x in v["bare"].items()]}
    return {"spec": {"cp": dc_path(fam, N) if v["cp"] == "D" else full(fam, v["cp"]), "ia": [[k, {"lit": lit(x)}] for k, x in v["ia"].items()], "dk": []}}


def dc_in_model(fam, case):
    """the scalar domain of the model: every given value has the Python type of the same-named parameter of the class member
    (an int given where the class member declares bool / str is C02's subject); the named classes have scalar parameters only"""
    base = cls_of(fam, "Base")["params"]
    for v in case["values"]:
        if not isinstance(v, dict):
            continue
        kv = dict(v.get("ia") or v.get("bare") or {})
        if "dotted" in v:
            kv[v["dotted"][0]] = v["dotted"][1]
        for k, x in kv.items():
            for ps in (base, dc_fields(fam, case["dc"])):
                q = param_of(ps, k)
                if q is not None and q["ty"][0] in ("scalar", "optScalar") and x is not None and type(x).__name__ != q["ty"][1]:
                    return False
        if "cp" in v and v["cp"] != "D":
            tp = target_params(fam, v["cp"].lstrip("@^"))
            if tp is None or not model_ok_params(tp) or any(p["ty"][0] not in ("scalar", "optScalar") for p in tp):
                return False
    return model_ok_params(base) and all(p["ty"][0] in ("scalar", "optScalar") for p in base)


def dc_real_canon_type(fam, t):
    if t is None:
        return None
    if t.startswith(modname(fam) + "."):
        return canonical(fam, t[len(modname(fam)) + 1:])
    if t.startswith(pkgname(fam) + ".defs2."):
        return canonical(fam, "%" + t.rsplit(".", 1)[1])
    return t


def dc_corr_diff(fam, case, real, m):
    if "err" in m:
        return None if real["kind"] == "reject" else "model rejects (%s), real %s built %s" % (m["err"], real["kind"], real.get("type"))
    if real["kind"] != "ok":
        return "model accepts (built %s), real %s %s" % (m.get("built"), real["kind"], real.get("msg", "")[:200])
    if "inst_error" in real:
        return None
    if m.get("built") != dc_real_canon_type(fam, real.get("type")):
        return "built class: real %s, model %s" % (real.get("type"), m.get("built"))
    if m.get("ok") is None:
        return None
    mv = m["ok"]
    kv = mv.get("bare") if "bare" in mv else mv.get("spec", {}).get("ia", [])
    want = {k: x.get("lit") for k, x in kv}
    got = {k: real["attrs"].get(k) for k in want}
    if m.get("built") in class_params_by_path(fam) or "bare" in mv:
        if got != want and not func_of(fam, (m.get("built") or "").rsplit(".", 1)[-1]):
            return "fields / init_args: real %s, model %s" % (json.dumps(got, sort_keys=True)[:200], json.dumps(want, sort_keys=True)[:200])
    return None


def run_dc(ctx: Ctx, cases, origin):
    # the model on the same cases (dataAll / unionAll: members in order, key-wise store, final re-adaptation, defaults)
    lines, index, last = [], {}, None
    for i, (fam, case) in enumerate(cases):
        try:
            if dc_uses_clash_or_lazy(fam, case) or not dc_in_model(fam, case):
                continue
        except Exception:  # noqa: BLE001
            continue
        if modname(fam) != last:
            lines.append({"setenv": wire_env(fam)})
            last = modname(fam)
        index[i] = len(lines)
        lines.append({"dcarg": {"kind": case["kind"], "decl": dc_path(fam, case["dc"]), "fields": [wire_param(fam, f) for f in dc_fields(fam, case["dc"])],
                                "base": canonical(fam, "Base"), "values": [dc_wire_value(fam, case["dc"], v) for v in case["values"]]}, "fuel": 24})
    model = None
    if lines:
        try:
            model = ctx.driver("ClassPath", lines)
        except MachineryError as ex:
            if ctx.lean_ok:
                raise
            ctx.tie_break("correspondence E10b not runnable (model does not build)", str(ex))
    bad = 0
    for i, (fam, case) in enumerate(cases):
        try:
            if dc_uses_clash_or_lazy(fam, case):
                continue
        except Exception:  # noqa: BLE001
            continue
        ctx.count()
        real = dc_real(fam, case)
        dev, finding = dc_problem(fam, case, real)
        if model is not None and i in index:
            d = dc_corr_diff(fam, case, real, model[index[i]])
            ctx.hist("dataclass_arg_model", "compared")
            if d is not None:
                bad += 1
                if os.environ.get("VERIF_C14_DEBUG"):
                    print("CORR-DC", d[:400], json.dumps(dc_argv(fam, case))[:300], case["kind"], file=sys.stderr)
                if bad <= 3:
                    ctx.tie_break("correspondence E10b (dataclass / Union[dataclass, class] model vs jsonargparse._typehints) disagrees",
                                  json.dumps({"diff": d, "argv": dc_argv(fam, case), "case": case, "module": family_src(fam)}, ensure_ascii=True)[:1900])
        ctx.hist("dataclass_arg", "%s/%s/%s" % (case["kind"], "D" if isinstance(case["values"][0], dict) and case["values"][0].get("cp") == "D" else
                                                  "other-class" if isinstance(case["values"][0], dict) and "cp" in case["values"][0] else "dict", real["kind"]))
        if dev is None:
            if real["kind"] == "ok" and real.get("calls"):
                ctx.nontrivial(json.dumps(["dc", family_src(fam), case]))
            continue
        if dc_kind_change(case) and ctx.is_open(F_UNION_CHANGE):
            ctx.known(F_UNION_CHANGE, "%s (argv %s)" % (dev[:200], json.dumps(dc_argv(fam, case))[:200]))
            continue
        if finding and ctx.is_open(F_UNION_DC):
            ctx.known(F_UNION_DC, "%s (argv %s)" % (dev[:200], json.dumps(dc_argv(fam, case))[:200]))
            continue
        ctx.violation("dataclass-typed argument in class_path form: %s" % dev,
                      {"kind": "dc", "origin": origin, "family": fam, "case": case, "argv": dc_argv(fam, case), "module": family_src(fam),
                       "dataclass": {"path": dc_path(fam, case["dc"]), "fields": dc_fields(fam, case["dc"])}, "observed": real})
    return bad


# ---------------------------------------------------------------------------------------------
# containers of classes at ANY depth: an argument typed List[Dict[str, Optional[Base]]], Dict[str, List[Dep]], ... (one source).
# A case: {"cty": T, "value": V}; T = ["cls", C] | ["opt", T] | ["list", T] | ["dict", T];
#   V = raw spec (a leaf) | None | [V, ...] | {"items": [[key, V], ...]}
# property: accepted iff EVERY leaf names a subclass of its declared element type with init_args valid for it; every leaf is
# then built once, as exactly the named class, and stands where its spec stood
# ---------------------------------------------------------------------------------------------
def cty_python(fam, t):
    from typing import Dict, List, Optional

    if t[0] == "cls":
        return getattr(module_for(fam), t[1])
    inner = cty_python(fam, t[1])
    return {"opt": Optional[inner], "list": List[inner], "dict": Dict[str, inner]}[t[0]]


def cty_src(t):
    return t[1] if t[0] == "cls" else {"opt": "Optional[%s]", "list": "List[%s]", "dict": "Dict[str, %s]"}[t[0]] % cty_src(t[1])


def cty_wire(fam, t):
    return ["cls", canonical(fam, t[1])] if t[0] == "cls" else [t[0], cty_wire(fam, t[1])]


def gen_cty(rng, depth):
    if depth == 0:
        return ["cls", rng.choice(["Base", "Base", "Dep"])]
    k = rng.choice(["list", "dict", "opt", "list", "dict"])
    inner = gen_cty(rng, depth - 1)
    if k == "opt" and inner[0] == "opt":
        k = "list"
    return [k, inner]


def gen_cty_value(rng, fam, t, bad):
    """a value of the shape of t; `bad`: a one-element list that asks for ONE faulty leaf (emptied when it was placed)"""
    if t[0] == "cls":
        if bad and rng.random() < 0.5:
            kind = bad.pop()
            if kind == "wrong-class":
                return {"name": "@Unrel"} if rng.random() < 0.5 else {"cp": "@Unrel", "ia": {}, "dk": None}
            target = rng.choice([x for x in acceptable(fam, t[1]) if cls_of(fam, x)] or acceptable(fam, t[1]))
            return {"cp": "@" + target.lstrip("%") if not target.startswith("%") else target, "ia": dict(gen_ia(rng, fam, target), nosuch=1), "dk": None}
        return strip_dk(gen_spec_raw(rng, fam, t[1]))
    if t[0] == "opt":
        return None if rng.random() < 0.3 else gen_cty_value(rng, fam, t[1], bad)
    n = rng.randint(0, 2) if not bad else rng.randint(1, 2)
    if t[0] == "list":
        return [gen_cty_value(rng, fam, t[1], bad) for _ in range(n)]
    return {"items": [[k, gen_cty_value(rng, fam, t[1], bad)] for k in rng.sample(["k1", "k2", "enc"], n)]}


def cty_json(fam, t, v):
    if t[0] == "cls":
        return raw_to_json(fam, v)
    if t[0] == "opt":
        return None if v is None else cty_json(fam, t[1], v)
    if t[0] == "list":
        return [cty_json(fam, t[1], x) for x in v]
    return {k: cty_json(fam, t[1], x) for k, x in v["items"]}


def cty_wire_value(fam, t, v):
    if t[0] == "cls":
        return wire_raw(fam, v)
    if t[0] == "opt":
        return {"lit": ["NoneType", "None"]} if v is None else cty_wire_value(fam, t[1], v)
    if t[0] == "list":
        return {"lst": [cty_wire_value(fam, t[1], x) for x in v]}
    return {"dct": [[k, cty_wire_value(fam, t[1], x)] for k, x in v["items"]]}


def cty_expected(fam, t, v):
    """canonical expected configuration; raises Reject"""
    if t[0] == "cls":
        return ref_finalize(fam, ref_apply(fam, t[1], None, v))
    if t[0] == "opt":
        return None if v is None else cty_expected(fam, t[1], v)
    if t[0] == "list":
        return [cty_expected(fam, t[1], x) for x in v]
    return {"items": [[k, cty_expected(fam, t[1], x)] for k, x in v["items"]]}


def cty_canon_exp(fam, t, e):
    if e is None:
        return {"lit": ["NoneType", "None"]} if t[0] == "opt" else None
    if t[0] == "cls":
        return canon_state(fam, e)
    if t[0] == "opt":
        return cty_canon_exp(fam, t[1], e)
    if t[0] == "list":
        return [cty_canon_exp(fam, t[1], x) for x in e]
    return {k: cty_canon_exp(fam, t[1], x) for k, x in e["items"]}


def cty_canon_real(t, v):
    if v is None:
        return {"lit": ["NoneType", "None"]}
    if t[0] == "cls":
        return canon_real(v)
    if t[0] == "opt":
        return cty_canon_real(t[1], v)
    if t[0] == "list":
        return [cty_canon_real(t[1], x) for x in v] if isinstance(v, list) else {"other": repr(v)[:100]}
    return {k: cty_canon_real(t[1], x) for k, x in v.items()} if isinstance(v, dict) else {"other": repr(v)[:100]}


def cty_leaves(t, e, objs):
    """[(expected final state, built object)] in container order"""
    if e is None:
        return [] if objs is None else [(None, objs)]
    if t[0] == "cls":
        return [(e, objs)]
    if t[0] == "opt":
        return cty_leaves(t[1], e, objs)
    if t[0] == "list":
        return [x for a, b in zip(e, objs) for x in cty_leaves(t[1], a, b)]
    return [x for (k, a) in e["items"] for x in cty_leaves(t[1], a, objs[k])]


def cty_real(fam, case):
    from jsonargparse import ArgumentError, ArgumentParser

    mod = module_for(fam)
    parser = ArgumentParser(exit_on_error=False)
    parser.add_argument("--opt", type=cty_python(fam, case["cty"]))
    err = io.StringIO()
    try:
        with contextlib.redirect_stderr(err):
            j = cty_json(fam, case["cty"], case["value"])
            cfg = parser.parse_args(["--opt", j if isinstance(j, str) else json.dumps(j)])
    except ArgumentError as ex:
        return {"kind": "reject", "cat": err_category(str(ex)), "msg": str(ex).replace("\n", " | ")[:300]}
    except Exception as ex:  # noqa: BLE001
        return {"kind": "crash", "msg": "%s: %s" % (type(ex).__name__, str(ex)[:300])}
    out = {"kind": "ok", "cfg": cty_canon_real(case["cty"], cfg.get("opt"))}
    mod.LOG.clear()
    try:
        init = parser.instantiate_classes(cfg)
    except Exception as ex:  # noqa: BLE001
        mod.LOG.clear()
        out["inst_error"] = "%s: %s" % (type(ex).__name__, str(ex)[:300])
        return out
    log = list(mod.LOG)
    mod.LOG.clear()
    ids = {oid: i for i, (_, oid, _, _) in enumerate(log)}
    out["ctors"] = [{"target": canonical(fam, name),
                     "args": {k: ({"obj": ids[id(v)]} if id(v) in ids and not isinstance(v, (int, str, float, bool, type(None))) else {"lit": lit(v)}) for k, v in args.items()},
                     "kwargs": {k: {"lit": lit(v)} for k, v in kwargs.items()}} for name, _, args, kwargs in log]
    out["objs"] = init.get("opt")
    out["ids"] = ids
    return out


def cty_cfg_matches(got, want):
    """the stored configuration names the expected classes and holds nothing but expected init_args (specs under two or
    more container levels are stored without the defaults of their class)"""
    if isinstance(want, list):
        return isinstance(got, list) and len(got) == len(want) and all(cty_cfg_matches(g, w) for g, w in zip(got, want))
    if isinstance(want, dict) and "cp" in want:
        if not (isinstance(got, dict) and got.get("cp") == want["cp"] and got.get("dk") == want["dk"]):
            return False
        return all(k in want["ia"] and cty_cfg_matches(v, want["ia"][k]) for k, v in got["ia"].items())
    if isinstance(want, dict) and "lit" not in want:
        return isinstance(got, dict) and list(got) == list(want) and all(cty_cfg_matches(got[k], want[k]) for k in want)
    return got == want


def cty_problem(fam, case, real):
    t = case["cty"]
    try:
        exp = ("ok", cty_expected(fam, t, case["value"]))
    except Reject as ex:
        exp = ("reject", str(ex))
    if real["kind"] == "crash":
        return "parsing a %s value raises %s" % (cty_src(t), real["msg"])
    if exp[0] == "reject":
        return None if real["kind"] == "reject" else "a %s value with a leaf that must be rejected (%s) is accepted" % (cty_src(t), exp[1])
    if real["kind"] == "reject":
        return "a valid %s value is rejected: %s" % (cty_src(t), real["msg"])
    want = cty_canon_exp(fam, t, exp[1])
    if not cty_cfg_matches(real["cfg"], want):
        return "%s: parsed configuration differs: got %s expected %s" % (cty_src(t), json.dumps(real["cfg"], sort_keys=True)[:300], json.dumps(want, sort_keys=True)[:300])
    if "inst_error" in real:
        return "instantiate_classes fails on an accepted %s value: %s" % (cty_src(t), real["inst_error"])
    try:
        leaves = cty_leaves(t, exp[1], real["objs"])
    except Exception as ex:  # noqa: BLE001
        return "%s: the instantiated value has another shape than the configuration (%s)" % (cty_src(t), type(ex).__name__)
    n = 0
    for st, obj in leaves:
        if st is None:
            continue
        calls = expected_ctors(fam, st)
        n += len(calls)
        tname = ("defs2." if type(obj).__module__.endswith(".defs2") else "") + type(obj).__name__
        if canonical(fam, tname) != canonical(fam, target_class(fam, st["t"])):
            return "%s: a leaf was built as %s, its spec names %s" % (cty_src(t), type(obj).__name__, target_class(fam, st["t"]))
        if cls_of(fam, st["t"]):
            for p in target_params(fam, st["t"]):
                x = st["ia"][p["name"]]
                if not isinstance(x, dict) and lit(getattr(obj, p["name"])) != lit(x):
                    return "%s: a leaf %s has %s=%r, configured (or default) %r" % (cty_src(t), st["t"], p["name"], getattr(obj, p["name"]), x)
        if cls_of(fam, st["t"]) and real["ids"].get(id(obj)) != n - 1:
            return "%s: a leaf object is not the one built from the spec at its place (call %s, expected %d)" % (cty_src(t), real["ids"].get(id(obj)), n - 1)
    if len(real["ctors"]) != n:
        return "%s: %d constructor calls, expected %d (one per spec)" % (cty_src(t), len(real["ctors"]), n)
    return None


def cty_depth(t):
    return 0 if t[0] == "cls" else cty_depth(t[1]) + (0 if t[0] == "opt" else 1)


def cty_log_agrees(t, real, model):
    """under at most one container level the keyword arguments are exactly the stored init_args; deeper specs are stored
    without the defaults of their class, the constructor (which logs its BOUND parameters) applies its own defaults: the
    model's keyword arguments are then a part of what the constructor logs"""
    if cty_depth(t) <= 1:
        return real == model
    return len(real) == len(model) and all(r["target"] == m["target"] and r["kwargs"] == m["kwargs"] and all(r["args"].get(k) == a for k, a in m["args"].items())
                                           for r, m in zip(real, model))


def cty_cases(rng, fam):
    out = []
    for depth in (2, 3, rng.choice([1, 2, 3])):
        t = gen_cty(rng, depth)
        bad = [rng.choice(["wrong-class", "unknown-key"])] if rng.random() < 0.3 else []
        try:
            v = gen_cty_value(rng, fam, t, bad)
        except (Reject, IndexError):
            continue
        if cty_depth(t) >= 2 and cty_lazy_leaf(fam, t, v):
            continue        # lazy_instance defaults of a leaf's parameters below two container levels: left to the single-class checks
        out.append((fam, {"cty": t, "value": v}))
    return out


def cty_lazy_leaf(fam, t, v):
    if v is None:
        return False
    if t[0] == "cls":
        try:
            st = ref_apply(fam, t[1], None, v)
        except Reject:
            return False

        def lazy(st):
            ps = target_params(fam, st["t"]) or []
            return any(is_lazy(p["default"]) for p in ps) or any(lazy(x) for x in st["ia"].values() if isinstance(x, dict))
        return lazy(st)
    if t[0] == "opt":
        return cty_lazy_leaf(fam, t[1], v)
    return any(cty_lazy_leaf(fam, t[1], x) for x in (v if t[0] == "list" else [x for _, x in v["items"]]))


def cty_uses_dk(v):
    s = json.dumps(v)
    return '"dk": {' in s


def run_cty(ctx: Ctx, cases, origin):
    lines, index, last = [], {}, None
    for i, (fam, case) in enumerate(cases):
        if modname(fam) != last:
            lines.append({"setenv": wire_env(fam)})
            last = modname(fam)
        index[i] = len(lines)
        lines.append({"cty": cty_wire(fam, case["cty"]), "value": cty_wire_value(fam, case["cty"], case["value"]), "fuel": 24})
    model = None
    if lines:
        try:
            model = ctx.driver("ClassPath", lines)
        except MachineryError as ex:
            if ctx.lean_ok:
                raise
            ctx.tie_break("correspondence E10b not runnable (model does not build)", str(ex))
    bad = 0
    for i, (fam, case) in enumerate(cases):
        ctx.count()
        real = cty_real(fam, case)
        ctx.hist("nested_container", "%s/%s" % (cty_src(case["cty"]).replace("Base", "C").replace("Dep", "C"), real["kind"]))
        dev = cty_problem(fam, case, real)
        if dev is not None:
            ctx.violation("containers of classes at depth: " + dev,
                          {"kind": "cty", "origin": origin, "family": fam, "case": case, "type": cty_src(case["cty"]),
                           "argv": ["--opt", json.dumps(cty_json(fam, case["cty"], case["value"]))], "module": family_src(fam)})
        elif real["kind"] == "ok" and real.get("ctors"):
            ctx.nontrivial(json.dumps(["cty", family_src(fam), case]))
        if model is not None:
            m = model[index[i]]
            d = None
            if "err" in m:
                if real["kind"] != "reject":
                    d = "model rejects (%s), real %s" % (m["err"], real["kind"])
                elif real["cat"] != m["err"] and "Optional" not in cty_src(case["cty"]):
                    # (the message of a failed Optional lists the errors of both members: no single class)
                    d = "error class: real %s (%s), model %s" % (real["cat"], real.get("msg", "")[:160], m["err"])
            elif real["kind"] != "ok":
                d = "model accepts, real %s %s" % (real["kind"], real.get("msg", "")[:200])
            else:
                mc = model_val_to_canon(m["ok"])
                if real["cfg"] != mc:
                    d = "parse result: real %s, model %s" % (json.dumps(real["cfg"], sort_keys=True)[:300], json.dumps(mc, sort_keys=True)[:300])
                elif "ctors" in real and not cty_log_agrees(case["cty"], real["ctors"], model_ctors(m)):
                    d = "constructor log: real %s, model %s" % (json.dumps(real["ctors"])[:300], json.dumps(model_ctors(m))[:300])
            if d is not None:
                bad += 1
                if os.environ.get("VERIF_C14_DEBUG"):
                    print("CORR-CTY", d[:500], cty_src(case["cty"]), json.dumps(cty_json(fam, case["cty"], case["value"]))[:300], file=sys.stderr)
                if bad <= 3:
                    ctx.tie_break("correspondence E10b (containers of classes at depth: adaptC vs jsonargparse._typehints) disagrees",
                                  json.dumps({"diff": d, "type": cty_src(case["cty"]), "value": cty_json(fam, case["cty"], case["value"]),
                                              "module": family_src(fam)}, ensure_ascii=True)[:1900])
    return bad


# ---------------------------------------------------------------------------------------------
# history within one process: a class_path is resolved, the object behind the path changes, the same path is used again.
# "class_path imports to" is evaluated at parse time: the result must follow the CURRENT object.
# ---------------------------------------------------------------------------------------------
def _parse_build(fam, path, ia):
    """parse --opt {class_path: path, init_args: ia} for --opt: Base and instantiate; ('ok', obj, class_path) | ('reject', msg)"""
    from jsonargparse import ArgumentError, ArgumentParser

    mod = module_for(fam)
    parser = ArgumentParser(exit_on_error=False)
    parser.add_argument("--opt", type=mod.Base)
    try:
        cfg = parser.parse_args(["--opt", json.dumps({"class_path": path, "init_args": ia})])
    except ArgumentError as ex:
        return ("reject", str(ex).replace("\n", " | ")[:300])
    mod.LOG.clear()
    obj = parser.instantiate_classes(cfg).opt
    mod.LOG.clear()
    return ("ok", obj, cfg.opt.class_path)


def history_problem(fam, seed):
    """returns a description of the first deviation or None"""
    rng = random.Random(seed)
    mod = module_for(fam)
    # (1) a module attribute is re-pointed to a sibling class
    concrete = [t for t in acceptable(fam, "Base") if cls_of(fam, t) and not t.startswith("%")]
    if len(concrete) >= 2:
        a, b = rng.sample(concrete, 2)
        path = modname(fam) + ".Current"
        try:
            for step, name in enumerate((a, b, a)):
                setattr(mod, "Current", getattr(mod, name))
                ia = raw_ia_json(fam, {k: v for k, v in gen_ia(rng, fam, name).items()})
                r = _parse_build(fam, path, ia)
                if r[0] != "ok":
                    return "step %d: %s now is %s; init_args valid for %s are rejected: %s" % (step + 1, path, name, name, r[1])
                if type(r[1]) is not getattr(mod, name):
                    return "step %d: %s now is %s, but instantiate_classes built a %s (class_path %s)" % (step + 1, path, name, type(r[1]).__name__, r[2])
                if r[2] != canonical(fam, name):
                    return "step %d: %s now is %s, but class_path was normalised to %s" % (step + 1, path, name, r[2])
        finally:
            if hasattr(mod, "Current"):
                delattr(mod, "Current")
    # (2) a plugin module is rewritten with another signature and reloaded
    d = os.path.join(pkg_dir(), "c14gen", "f_" + fam_hash(fam))
    fname = os.path.join(d, "plug.py")
    src = ("from .defs import Base\n\n\nclass Plug(Base):\n    def __init__(self, %s):\n        self.version = %d\n        self.%s = %s\n\n"
           "    def run(self):\n        return 3\n")
    versions = [("old_opt: int = 1", 1, "old_opt", "old_opt"), ("new_opt: str = 'x'", 2, "new_opt", "new_opt")]
    plug_path = pkgname(fam) + ".plug.Plug"
    plug_mod = None
    for n, (params, version, attr, val) in enumerate(versions):
        with open(fname, "w") as f:
            f.write(src % (params, version, attr, val))
        os.utime(fname, (1_700_000_000 + 10 * n + seed % 7, 1_700_000_000 + 10 * n + seed % 7))
        importlib.invalidate_caches()
        if plug_mod is None:
            plug_mod = importlib.import_module(pkgname(fam) + ".plug")
        else:
            plug_mod = importlib.reload(plug_mod)
        good = {"old_opt": 5} if version == 1 else {"new_opt": "w"}
        bad = {"new_opt": "w"} if version == 1 else {"old_opt": 5}
        r = _parse_build(fam, plug_path, good)
        if r[0] != "ok":
            return "plugin version %d: init_args valid for the CURRENT %s are rejected: %s" % (version, plug_path, r[1])
        if type(r[1]) is not plug_mod.Plug or r[1].version != version:
            return "plugin version %d: %s imports to the reloaded class, but an instance of version %r of the class was built" % (version, plug_path, getattr(r[1], "version", "?"))
        r = _parse_build(fam, plug_path, bad)
        if r[0] == "ok":
            return "plugin version %d: init_args %s that the CURRENT %s does not accept are accepted" % (version, json.dumps(bad), plug_path)
    return None


def raw_ia_json(fam, ia):
    return {k: raw_to_json(fam, v) for k, v in ia.items()}


def run_history(ctx: Ctx, fam, seed, origin):
    ctx.count()
    ctx.hist("history", "rebind+reload")
    dev = history_problem(fam, seed)
    if dev is not None:
        ctx.violation("the object behind a class_path changed within the process and the parser did not follow it: " + dev,
                      {"kind": "history", "origin": origin, "family": fam, "seed": seed, "module": family_src(fam)})


# ---------------------------------------------------------------------------------------------
# class instantiators registered on two parser levels: a subcommand parser's own come before the inherited ones
# A case: regs = [[level "own"|"parent", tag, class name, subclasses, prepend]], opt = class for --opt, dep = class for --own.dep
# ---------------------------------------------------------------------------------------------
def instantiator_cases(rng, fam):
    concrete = [t for t in acceptable(fam, "Base") if cls_of(fam, t) and not t.startswith("%")
                and not any(q["default"] == "REQ" and q["ty"][0] not in ("scalar", "optScalar") for q in target_params(fam, t))]
    if len(concrete) < 2:
        return []
    out = []
    keys = ["Base"] + concrete
    for n in range(3):
        x, y = rng.choice(concrete), rng.choice(concrete)
        regs = []
        if n == 0:
            # the situation of the documented order: catch-all on the parent, exact class on the subcommand parser
            regs = [["parent", "p:Base+", "Base", True, False], ["own", "o:%s" % x, x, rng.random() < 0.5, False]]
        else:
            for i in range(rng.randint(2, 4)):
                k = rng.choice(keys)
                lvl = rng.choice(["own", "parent"])
                regs.append([lvl, "%s%d:%s" % (lvl[0], i, k), k, rng.random() < 0.6, rng.random() < 0.3])
        out.append((fam, {"regs": regs, "opt": x, "dep": y}))
    return out


def ref_instantiator_order(regs, level):
    reg = []
    for lvl, tag, cls, sub, prepend in regs:
        if lvl != level:
            continue
        reg = [r for r in reg if (r[1], r[2]) != (cls, sub)]
        reg = [[tag, cls, sub]] + reg if prepend else reg + [[tag, cls, sub]]
    return reg


def ref_pick(fam, regs, cls):
    own = ref_instantiator_order(regs, "own")
    parent = [r for r in ref_instantiator_order(regs, "parent") if not any((r[1], r[2]) == (o[1], o[2]) for o in own)]
    for tag, k, sub in own + parent:
        if k == cls or (sub and is_sub(fam, cls, k)):
            return tag
    return "default"


def instantiator_real(fam, case):
    """[(class name, tag that built it)] in construction order"""
    from jsonargparse import ArgumentParser

    mod = module_for(fam)
    tags = []

    def make(tag):
        def fn(cls, *a, **k):
            obj = cls(*a, **k)
            tags.append((id(obj), tag))
            return obj
        return fn

    root = ArgumentParser(exit_on_error=False)
    fit = ArgumentParser(exit_on_error=False)
    fit.add_argument("--opt", type=mod.Base)
    fit.add_argument("--own", type=mod.Owner)
    root.add_subcommands().add_subcommand("fit", fit)
    for lvl, tag, cls, sub, prepend in case["regs"]:
        (fit if lvl == "own" else root).add_instantiator(make(tag), getattr(mod, cls), subclasses=sub, prepend=prepend)
    rng = random.Random(json.dumps(case, sort_keys=True))
    spec = lambda t: {"class_path": canonical(fam, t), "init_args": raw_ia_json(fam, {k: v for k, v in gen_ia(rng, fam, t).items() if not isinstance(v, dict)})}  # noqa: E731
    cfg = root.parse_args(["fit", "--opt", json.dumps(spec(case["opt"])), "--own", json.dumps({"class_path": canonical(fam, "Owner"), "init_args": {"dep": spec(case["dep"])}})])
    mod.LOG.clear()
    root.instantiate_classes(cfg)
    log = list(mod.LOG)
    mod.LOG.clear()
    by_id = dict(tags)
    return [(name, by_id.get(oid, "default")) for name, oid, _, _ in log]


def run_instantiators(ctx: Ctx, cases, origin):
    lines, index, last = [], [], None
    for fam, case in cases:
        if modname(fam) != last:
            lines.append({"setenv": wire_env(fam)})
            last = modname(fam)
        start = len(lines)
        for cls in (case["opt"], case["dep"], "Owner"):
            lines.append({"instantiators": {lvl: [[tag, canonical(fam, c), sub, pre] for l2, tag, c, sub, pre in case["regs"] if l2 == lvl] for lvl in ("own", "parent")},
                          "cls": canonical(fam, cls)})
        index.append(start)
    model = None
    if lines:
        try:
            model = ctx.driver("ClassPath", lines)
        except MachineryError as ex:
            if ctx.lean_ok:
                raise
            ctx.tie_break("correspondence E10b not runnable (model does not build)", str(ex))
    bad = 0
    for i, (fam, case) in enumerate(cases):
        ctx.count()
        ctx.hist("instantiators", "%d registrations" % len(case["regs"]))
        try:
            real = instantiator_real(fam, case)
        except Exception as ex:  # noqa: BLE001
            ctx.violation("instantiate_classes with registered instantiators fails: %s: %s" % (type(ex).__name__, str(ex)[:200]),
                          {"kind": "instantiators", "origin": origin, "family": fam, "case": case, "module": family_src(fam)})
            continue
        want = [(name, ref_pick(fam, case["regs"], name)) for name, _ in real]
        if real != want:
            ctx.violation("the object is not built by the first matching instantiator in the order own parser, then parent parser: built %s, expected %s (registrations %s)"
                          % (json.dumps(real), json.dumps(want), json.dumps(case["regs"])),
                          {"kind": "instantiators", "origin": origin, "family": fam, "case": case, "module": family_src(fam)})
        elif any(t != "default" for _, t in real):
            ctx.nontrivial(json.dumps(["instantiators", family_src(fam), case]))
        if model is not None:
            got = dict(real)
            for off, cls in enumerate((case["opt"], case["dep"], "Owner")):
                mt = model[index[i] + off]["tag"]
                if cls in got and got[cls] != mt and [n for n, _ in real].count(cls) == 1:
                    bad += 1
                    if bad <= 3:
                        ctx.tie_break("correspondence E10b (instantiator order model vs jsonargparse._core._get_instantiators) disagrees",
                                      json.dumps({"class": cls, "real": got[cls], "model": mt, "case": case}, ensure_ascii=True)[:1500])
    return bad


def run(ctx: Ctx):
    repo_python_path()
    ctx.rule = ("case = (generated class family as a real module: Base (sometimes abstract), SubA/SubB/SubC adding, overriding and dropping "
                "parameters, SubKW with **kwargs, Unrel, Dep/DepA/DepB for nested class-typed and Optional parameters, functions returning a class, "
                "a non-class; declared type; 1-3 sources among --opt=Name, --opt=path, --opt <dict>, --opt <bare dict>, --opt.key[.key]=value, "
                "--config {...}; optionally one injected fault) run through a real ArgumentParser; parse result / error class / constructor log "
                "compared with the Lean model and with a property-level reference; non-trivial = at least one class was really instantiated; "
                "distinct by (module source, declared type, argv)")
    ctx.assumptions = [
        "scalar validation is abstract: values are given with the exact Python type of the parameter or with an evidently wrong one (conversions are C02)",
        "sequences in which a source with dict_kwargs is followed by a class change are generated only as witnesses of the open finding",
        "List/Dict/Union-of-class parameters are checked by the oracle only; argument defaults, protocols, generics, Callable[..., Base] are outside",
    ]
    ctx.lean_build(extractors=["classpath_tables"])
    try:
        from ..lib import corpus as corpus_mod

        corpus_all = corpus_mod.load(ctx.prop)
        corpus_cases = [(c["family"], c["declared"], c["sources"]) for c in corpus_all if "sources" in c]
        bad = run_cases(ctx, corpus_cases, "corpus")
        bad += run_container_multi_batch(ctx, [(c["family"], c["container"]["ckind"], c["container"]["sources"]) for c in corpus_all if "container" in c], "corpus")
        n_fam = ctx.budget(25, 300) * (2 if ctx.search_boost > 1 else 1)
        cases = []
        fams = []
        for _ in range(n_fam):
            fam = gen_family(ctx.rng)
            fams.append(fam)
            for T in ("Base", "Base", "SubA", "Dep", "Owner", "Owner", "Garage"):
                for _ in range(ctx.budget(3, 4)):
                    src = gen_sources(ctx.rng, fam, T, ctx.rng.randint(1, 3))
                    if not has_dk_before_change(fam, T, src):
                        cases.append((fam, T, src))
                for fault in ctx.rng.sample(FAULTS, 3):
                    if fault == "abstract-bare" and not cls_of(fam, T)["abstract"]:
                        continue
                    src = gen_sources(ctx.rng, fam, T, ctx.rng.randint(1, 2), fault=fault)
                    if not has_dk_before_change(fam, T, src):
                        cases.append((fam, T, src))
        n_carry = 0
        for fam in fams:
            nc = none_carry_cases(ctx.rng, fam)
            n_carry += len(nc)
            cases.extend(nc)
        ctx.extra["none_carried_across_class_change_cases"] = n_carry
        n_lazy = 0
        for fam in fams:
            lc = lazy_default_cases(ctx.rng, fam)
            n_lazy += len(lc)
            cases.extend(lc)
        ctx.extra["lazy_instance_default_cases"] = n_lazy
        n_dk = 0
        for fam in fams:
            dc = dk_change_cases(ctx.rng, fam)
            n_dk += len(dc)
            cases.extend(dc)
        ctx.extra["class_change_with_dict_kwargs_on_both_sides_cases"] = n_dk
        for fam, T, src in cases[:3]:
            ctx.sample({"declared": T, "argv": build_argv(fam, src)})
        bad += run_cases(ctx, cases, "generated")
        multi = []
        for fam in fams:
            for T in ("Base", "Dep", "SubA"):
                metamorphic(ctx, fam, T, ctx.rng)
            for valid, ia in container_cases(ctx.rng, fam):
                run_container(ctx, fam, valid, ia)
            multi.extend(container_multi_cases(ctx.rng, fam))
        bad += run_container_multi_batch(ctx, multi, "generated")
        # several class-typed options in one parser (names that are prefixes of each other included), several sources
        mcases = [(c["family"], c["multi"]) for c in corpus_all if "multi" in c]
        run_multi(ctx, mcases, "corpus")
        mcases = []
        for fam in fams:
            mcases.extend(multi_cases(ctx.rng, fam))
        run_multi(ctx, mcases, "generated")
        bad += run_walk_correspondence(ctx, mcases[: ctx.budget(40, 300)])
        ctx.extra["multi_option_cases"] = len(mcases)
        # dataclass-typed arguments (Optional / List / Dict / Union with a class) given in class_path form
        dcases = [(c["family"], c["dc_case"]) for c in corpus_all if "dc_case" in c]
        bad += run_dc(ctx, dcases, "corpus")
        dcases = []
        for fam in fams:
            dcases.extend(dc_cases(ctx.rng, fam))
        bad += run_dc(ctx, dcases, "generated")
        ctx.extra["dataclass_argument_cases"] = len(dcases)
        # containers of classes at any depth (one source): oracle per leaf + adaptC correspondence
        ccases = [(c["family"], c["cty_case"]) for c in corpus_all if "cty_case" in c]
        bad += run_cty(ctx, ccases, "corpus")
        ccases = []
        for fam in fams:
            ccases.extend(cty_cases(ctx.rng, fam))
        bad += run_cty(ctx, ccases, "generated")
        ctx.extra["nested_container_cases"] = len(ccases)
        # instantiators registered on the parent parser and on the subcommand parser
        icases = []
        if corpus_cases:
            icases += instantiator_cases(random.Random(7), corpus_cases[0][0])
        for fam in fams[: ctx.budget(15, 60)]:
            icases += instantiator_cases(ctx.rng, fam)
        bad += run_instantiators(ctx, icases, "generated")
        # history within the process (re-pointed module attribute, reloaded plugin module)
        if corpus_cases:
            run_history(ctx, corpus_cases[0][0], 0, "corpus")
        for n, fam in enumerate(fams[: ctx.budget(15, 60)]):
            run_history(ctx, fam, ctx.rng.randrange(10 ** 6), "generated")
        ctx.extra["cases"] = {"corpus": len(corpus_cases), "generated": len(cases), "families": n_fam, "container_multi": len(multi)}
        ctx.extra["correspondence_disagreements"] = bad

        for f in ctx.open_findings():
            w = f["witness"]
            if w.get("kind") == "container_multi":
                dev, _ = container_multi_problem(w["family"], w["ckind"], w["sources"])
                if dev is not None:
                    ctx.known(f["id"], f["description"][:200])
                else:
                    ctx.stale_findings.append(f["id"])
                continue
            if w.get("kind") == "dc":
                dev, _ = dc_problem(w["family"], w["case"], dc_real(w["family"], w["case"]))
                if dev is not None:
                    ctx.known(f["id"], f["description"][:200])
                else:
                    ctx.stale_findings.append(f["id"])
                continue
            real = real_run(w["family"], w["declared"], build_argv(w["family"], w["sources"]), default=default_of(w["sources"]))
            if oracle(w["family"], w["declared"], w["sources"], real) is not None:
                ctx.known(f["id"], f["description"][:200])
            else:
                ctx.stale_findings.append(f["id"])
    finally:
        cleanup()


def replay(ctx: Ctx, body):
    repo_python_path()
    rp = body["replay"]
    try:
        if rp.get("kind") == "case":
            fam, T, sources = rp["family"], rp["declared"], rp["sources"]
            argv = build_argv(fam, sources)
            real = real_run(fam, T, argv, default=default_of(sources))
            real.pop("root", None)
            print(family_src(fam))
            print("parser.add_argument('--opt', type=%s); parse_args(%r)" % (T, argv))
            print("observed:", json.dumps(real, ensure_ascii=True, default=repr)[:1200])
            print("expected:", json.dumps(reference(fam, T, sources), ensure_ascii=True, default=repr)[:800])
            dev = oracle(fam, T, sources, real)
            print("deviation:", dev)
            return 1 if dev else 0
        if rp.get("kind") == "multi":
            fam, case = rp["family"], rp["case"]
            print(family_src(fam))
            print("options %s; parse_args(%r)" % (", ".join("--%s: %s" % (n, case["types"][n]) for n in case["names"]), multi_argv(fam, case)))
            real = multi_real(fam, case)
            print("observed:", json.dumps(real, ensure_ascii=True, default=repr)[:1500])
            print("expected:", json.dumps(multi_expected(fam, case), ensure_ascii=True, default=repr)[:1000])
            dev = multi_problem(fam, case, real)
            print("deviation:", dev)
            return 1 if dev else 0
        if rp.get("kind") == "dc":
            fam, case = rp["family"], rp["case"]
            print(family_src(fam))
            print("dataclass %s with fields %s" % (dc_path(fam, case["dc"]), params_src(dc_fields(fam, case["dc"]))))
            print("--opt: %s; parse_args(%r)" % (case["kind"], dc_argv(fam, case)))
            real = dc_real(fam, case)
            print("observed:", json.dumps(real, ensure_ascii=True, default=repr)[:1000])
            print("expected:", json.dumps(dc_expected(fam, case), ensure_ascii=True, default=repr)[:1000])
            dev, finding = dc_problem(fam, case, real)
            print("deviation:", dev, "(open finding class)" if finding else "")
            return 1 if dev else 0
        if rp.get("kind") == "cty":
            fam, case = rp["family"], rp["case"]
            print(family_src(fam))
            print("--opt: %s; parse_args(%r)" % (cty_src(case["cty"]), ["--opt", json.dumps(cty_json(fam, case["cty"], case["value"]))]))
            real = cty_real(fam, case)
            print("observed:", json.dumps({k: v for k, v in real.items() if k not in ("objs", "ids")}, ensure_ascii=True, default=repr)[:1200])
            dev = cty_problem(fam, case, real)
            print("deviation:", dev)
            return 1 if dev else 0
        if rp.get("kind") == "metamorphic":
            fam, T = rp["family"], rp["declared"]
            a = real_run(fam, T, build_argv(fam, rp["explicit"]), twice=False)
            b = real_run(fam, T, build_argv(fam, rp["variant"]), twice=False)
            print("explicit:", build_argv(fam, rp["explicit"]), "->", json.dumps(a.get("cfg"))[:400])
            print("variant :", build_argv(fam, rp["variant"]), "->", json.dumps(b.get("cfg"))[:400])
            return 1 if (a["kind"], a.get("cfg")) != (b["kind"], b.get("cfg")) else 0
        if rp.get("kind") == "instantiators":
            real = instantiator_real(rp["family"], rp["case"])
            want = [(name, ref_pick(rp["family"], rp["case"]["regs"], name)) for name, _ in real]
            print("registrations (level, tag, class, subclasses, prepend):", rp["case"]["regs"])
            print("built   :", real)
            print("expected:", want)
            return 1 if [list(x) for x in real] != [list(x) for x in want] else 0
        if rp.get("kind") == "history":
            dev = history_problem(rp["family"], rp["seed"])
            print("history (re-pointed module attribute, then a reloaded plugin module):", dev)
            return 1 if dev else 0
        if rp.get("kind") == "container_multi":
            print(family_src(rp["family"]))
            print("--table: Dict[str, Base], --elems: List[Base]; parse_args(%r)" % (container_argv(rp["family"], rp["ckind"], rp["sources"]),))
            dev, _ = container_multi_problem(rp["family"], rp["ckind"], rp["sources"])
            print("deviation:", dev)
            return 1 if dev else 0
        if rp.get("kind") == "container":
            print("value:", json.dumps(rp["value"])[:600])
            from jsonargparse import ArgumentError, ArgumentParser

            mod = module_for(rp["family"])
            parser = ArgumentParser(exit_on_error=False)
            parser.add_argument("--opt", type=mod.Holder)
            try:
                cfg = parser.parse_args(["--opt", json.dumps(rp["value"])])
                print("accepted:", cfg.opt)
                return 0 if rp["valid"] else 1
            except ArgumentError as ex:
                print("rejected:", str(ex)[:300])
                return 1 if rp["valid"] else 0
        print("nothing to replay:", json.dumps(rp)[:500])
        return 1
    finally:
        cleanup()

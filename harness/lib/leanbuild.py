"""extract -> lake build -> axiom audit -> forbidden-token grep; driver runner."""
from __future__ import annotations

import json
import os
import re
import subprocess
import sys

from .common import ALLOWED_AXIOMS, FORBIDDEN_RE, LEAN, VERIF, LeanLock, MachineryError

_THEOREM_RE = re.compile(r"^\s*(?:@\[[^\]]*\]\s*)?(?:private\s+|protected\s+)?theorem\s+([A-Za-z_][\w'.]*)", re.M)
_NAMESPACE_RE = re.compile(r"^\s*(namespace|end)\s+([\w.]+)\s*$", re.M)


def strip_comments(src: str) -> str:
    """remove /- ... -/ (nested) and -- line comments, keep line structure"""
    out = []
    i, n, depth = 0, len(src), 0
    while i < n:
        if src.startswith("/-", i):
            depth += 1
            i += 2
            continue
        if depth and src.startswith("-/", i):
            depth -= 1
            i += 2
            continue
        if depth:
            if src[i] == "\n":
                out.append("\n")
            i += 1
            continue
        if src.startswith("--", i):
            while i < n and src[i] != "\n":
                i += 1
            continue
        if src[i] == '"':
            j = i + 1
            while j < n and src[j] != '"':
                j += 2 if src[j] == "\\" else 1
            out.append(src[i : j + 1])
            i = j + 1
            continue
        out.append(src[i])
        i += 1
    return "".join(out)


def theorems_of(path: str):
    """fully qualified theorem names declared in a Lean file (namespace tracking by regex)"""
    src = strip_comments(open(path).read())
    events = []
    for m in _NAMESPACE_RE.finditer(src):
        events.append((m.start(), m.group(1), m.group(2)))
    for m in _THEOREM_RE.finditer(src):
        events.append((m.start(), "theorem", m.group(1)))
    events.sort()
    stack, out = [], []
    for _, kind, name in events:
        if kind == "namespace":
            stack.append(name)
        elif kind == "end":
            if stack and stack[-1].split(".")[-1] == name.split(".")[-1]:
                stack.pop()
        else:
            out.append(".".join(stack + [name]))
    return out


def lean_files():
    for root, _, files in os.walk(os.path.join(LEAN, "Jap")):
        for f in files:
            if f.endswith(".lean"):
                yield os.path.join(root, f)
    for f in os.listdir(os.path.join(LEAN, "Drv")):
        if f.endswith(".lean"):
            yield os.path.join(LEAN, "Drv", f)


_IMPORT_RE = re.compile(r"^\s*(?:public\s+)?import\s+(Jap\.[\w.]+)", re.M)


def import_closure(path, seen=None):
    """files of the Jap library transitively imported by a Lean file (source-level)"""
    seen = seen if seen is not None else set()
    if path in seen or not os.path.exists(path):
        return seen
    seen.add(path)
    for m in _IMPORT_RE.finditer(strip_comments(open(path).read())):
        import_closure(os.path.join(LEAN, *m.group(1).split(".")) + ".lean", seen)
    return seen


def files_of_property(prop):
    """Props/Cxx.lean, everything it imports, and the drivers built on those models"""
    files = import_closure(os.path.join(LEAN, "Jap", "Props", prop + ".lean"))
    for f in sorted(os.listdir(os.path.join(LEAN, "Drv"))):
        if f.endswith(".lean"):
            d = os.path.join(LEAN, "Drv", f)
            deps = import_closure(d, set()) - {d}
            if deps and deps <= files | {d}:
                files = files | {d}
    return sorted(files)


def forbidden_tokens(prop=None):
    hits = []
    for p in (files_of_property(prop) if prop else lean_files()):
        src = strip_comments(open(p).read())
        # string literals cannot smuggle proofs; drop them to avoid false hits
        src = re.sub(r'"(?:\\.|[^"\\])*"', '""', src)
        for n, line in enumerate(src.split("\n"), 1):
            if FORBIDDEN_RE.search(line):
                hits.append("%s:%d: %s" % (os.path.relpath(p, VERIF), n, line.strip()[:120]))
    return hits


def run(cmd, timeout=3600, cwd=LEAN, inp=None):
    p = subprocess.run(cmd, cwd=cwd, input=inp, stdout=subprocess.PIPE, stderr=subprocess.STDOUT, timeout=timeout, text=True)
    return p.returncode, p.stdout


def props_module(prop: str) -> str:
    return "Jap.Props.%s" % prop


def build(ctx, targets=None, extractors=None):
    """Regenerate Gen/*, build the property module, audit axioms.

    A failed extraction or a failed build is a *broken tie* (ctx.tie_break), never an exception;
    missing tools / forbidden tokens / unexpected axioms are machinery errors."""
    from .. import extract

    prop = ctx.prop
    with LeanLock():
        try:
            problems = extract.regenerate(extractors)
        except Exception as ex:  # extractor cannot find what it extracts
            problems = ["extractor crashed: %r" % (ex,)]
        for pr in problems:
            ctx.tie_break("extract: " + pr)
        tgts = targets or [props_module(prop)]
        rc, out = run(["lake", "build"] + tgts)
        ctx.lean_log = out
        ctx.lean_ok = rc == 0
        if rc != 0:
            errs = [l for l in out.split("\n") if l.startswith("error:")]
            ctx.lean_failed_decls = errs[:20]
            ctx.tie_break("lean proof obligation failed: " + " | ".join(e[:300] for e in errs[:6]), out[-4000:])
            # obligations still counted from the source
            path = os.path.join(LEAN, "Jap", "Props", prop + ".lean")
            ctx.obligations = len(theorems_of(path)) if os.path.exists(path) else 0
            ctx.discharged = 0
            return
        # audit
        hits = forbidden_tokens(prop)
        if hits:
            raise MachineryError("forbidden tokens in Lean sources: " + "; ".join(hits[:5]))
        path = os.path.join(LEAN, "Jap", "Props", prop + ".lean")
        thms = theorems_of(path)
        if not thms:
            raise MachineryError("no theorems found in " + path)
        os.makedirs(os.path.join(LEAN, ".lake", "audit"), exist_ok=True)
        apath = os.path.join(LEAN, ".lake", "audit", prop + ".lean")
        with open(apath, "w") as f:
            f.write("import %s\n" % props_module(prop))
            for t in thms:
                f.write("#print axioms %s\n" % t)
        rc, out = run(["lake", "env", "lean", apath])
        if rc != 0:
            raise MachineryError("axiom audit failed to run: " + out[-1500:])
        axioms = {}
        for m in re.finditer(r"'([^']+)' depends on axioms: \[([^\]]*)\]", out.replace("\n ", " ").replace("\n", " ")):
            axioms[m.group(1)] = [a.strip() for a in m.group(2).split(",") if a.strip()]
        for m in re.finditer(r"'([^']+)' does not depend on any axioms", out):
            axioms[m.group(1)] = []
        missing = [t for t in thms if t not in axioms]
        if missing:
            raise MachineryError("audit did not report on: %s" % missing[:5])
        bad = {t: [a for a in ax if a not in ALLOWED_AXIOMS] for t, ax in axioms.items()}
        bad = {t: a for t, a in bad.items() if a}
        if bad:
            raise MachineryError("theorems depend on non-allowed axioms: %s" % bad)
        ctx.axioms = axioms
        ctx.obligations = len(thms)
        ctx.discharged = len(thms)
        if ctx.thorough and os.environ.get("VERIF_SKIP_LEANCHECKER") != "1":
            rc, out = run(["lake", "env", "leanchecker", props_module(prop)], timeout=3000)
            ctx.extra["leanchecker"] = "ok" if rc == 0 else "FAILED"
            if rc != 0:
                raise MachineryError("leanchecker rejected %s: %s" % (props_module(prop), out[-1500:]))


def run_driver(name: str, lines, timeout: int = 600):
    """send JSON objects (one per line) to Drv/<name>.lean, return parsed output lines"""
    inp = "".join(json.dumps(l, ensure_ascii=False) + "\n" for l in lines)
    p = subprocess.run(["lake", "env", "lean", "--run", "Drv/%s.lean" % name], cwd=LEAN, input=inp,
                       stdout=subprocess.PIPE, stderr=subprocess.PIPE, timeout=timeout, text=True)
    rc, out = p.returncode, p.stdout
    if rc != 0:
        raise MachineryError("driver %s failed (rc=%d): %s %s" % (name, rc, out[-1000:], p.stderr[-2000:]))
    res = []
    for l in out.split("\n"):
        if l.strip():
            res.append(json.loads(l))
    if len(res) != len(lines):
        raise MachineryError("driver %s returned %d lines for %d inputs: %s" % (name, len(res), len(lines), out[-500:]))
    return res

"""regex -> DFA over a common character-class partition, and the joint automaton of a resolver pair.

The regex AST comes from CPython's own `re._parser`.  Semantics compiled: `rx.match(s) is not None`
(what `yaml.resolver.BaseResolver.resolve` evaluates): anchored at the start, *not* at the end unless the
pattern says so; `$` = end of string or just before one final "\\n" (no MULTILINE); `\\Z` = end of string.
Unsupported constructs raise NotImplementedError (the extractor turns that into a broken tie).

Used by harness/extractors/resolvers.py (C01, C05) and available to C20.
"""
from __future__ import annotations

import bisect
import re

try:  # Python >= 3.11
    import re._constants as sc
    import re._parser as sre_parse
except ImportError:  # pragma: no cover
    import sre_constants as sc
    import sre_parse

MAXCP = 0x110000
NL = 10

_CATEGORY_ESC = {
    "CATEGORY_DIGIT": r"\d", "CATEGORY_NOT_DIGIT": r"\D", "CATEGORY_SPACE": r"\s", "CATEGORY_NOT_SPACE": r"\S",
    "CATEGORY_WORD": r"\w", "CATEGORY_NOT_WORD": r"\W",
}
_category_cache = {}


def category_ranges(cat, flags):
    """code point ranges of a regex category, measured on `re` itself (\\d is not [0-9] for str patterns)"""
    key = (str(cat), bool(flags & re.ASCII))
    if key not in _category_cache:
        esc = _CATEGORY_ESC.get(str(cat))
        if esc is None:
            raise NotImplementedError(cat)
        rx = re.compile(esc, re.ASCII if flags & re.ASCII else 0)
        rs, start = [], None
        for cp in range(MAXCP):
            hit = rx.match(chr(cp)) is not None
            if hit and start is None:
                start = cp
            elif not hit and start is not None:
                rs.append((start, cp - 1))
                start = None
        if start is not None:
            rs.append((start, MAXCP - 1))
        _category_cache[key] = tuple(rs)
    return _category_cache[key]


class NFA:
    def __init__(self):
        self.n = 0
        self.eps = {}
        self.tr = []       # (src, charset, dst); charset = (negated, ((lo,hi),...))
        self.accept = set()

    def new(self):
        self.n += 1
        return self.n - 1

    def e(self, a, b):
        self.eps.setdefault(a, set()).add(b)


ANYSET = (True, ())            # every code point
NOT_NL = (True, ((NL, NL),))
ONLY_NL = (False, ((NL, NL),))


def charset_of(items, flags):
    neg, rs = False, []
    for op, av in items:
        if op is sc.NEGATE:
            neg = True
        elif op is sc.LITERAL:
            rs.append((av, av))
        elif op is sc.RANGE:
            rs.append(tuple(av))
        elif op is sc.CATEGORY:
            rs.extend(category_ranges(av, flags))
        else:
            raise NotImplementedError(op)
    return neg, tuple(rs)


def in_set(cp, cs):
    neg, rs = cs
    return any(lo <= cp <= hi for lo, hi in rs) != neg


def _build(nfa, node, start, flags, head, tail):
    """returns the end state of `node` started at `start`; head/tail: node is at the very start/end of the pattern"""
    cur = start
    items = list(node)
    at_head = head
    for idx, (op, av) in enumerate(items):
        is_head = at_head
        is_tail = tail and idx == len(items) - 1
        if not (op is sc.AT and av in (sc.AT_BEGINNING, sc.AT_BEGINNING_STRING)):
            at_head = False
        if op is sc.LITERAL:
            nxt = nfa.new(); nfa.tr.append((cur, (False, ((av, av),)), nxt)); cur = nxt
        elif op is sc.NOT_LITERAL:
            nxt = nfa.new(); nfa.tr.append((cur, (True, ((av, av),)), nxt)); cur = nxt
        elif op is sc.ANY:
            nxt = nfa.new(); nfa.tr.append((cur, ANYSET if flags & re.DOTALL else NOT_NL, nxt)); cur = nxt
        elif op is sc.IN:
            nxt = nfa.new(); nfa.tr.append((cur, charset_of(av, flags), nxt)); cur = nxt
        elif op is sc.BRANCH:
            end = nfa.new()
            for alt in av[1]:
                s = nfa.new(); nfa.e(cur, s)
                e = _build(nfa, alt, s, flags, is_head, is_tail)
                nfa.e(e, end)
            cur = end
        elif op is sc.SUBPATTERN:
            if av[1] or av[2]:
                raise NotImplementedError("inline flags in group")
            cur = _build(nfa, av[3], cur, flags, is_head, is_tail)
        elif op in (sc.MAX_REPEAT, sc.MIN_REPEAT):   # greediness is irrelevant for match-or-not
            lo, hi, sub = av
            for _ in range(lo):
                cur = _build(nfa, sub, cur, flags, False, False)
            if hi is sc.MAXREPEAT:
                s = nfa.new(); nfa.e(cur, s)
                e = _build(nfa, sub, s, flags, False, False)
                nfa.e(e, s)
                end = nfa.new(); nfa.e(s, end); cur = end
            else:
                end = nfa.new(); nfa.e(cur, end)
                for _ in range(hi - lo):
                    cur = _build(nfa, sub, cur, flags, False, False); nfa.e(cur, end)
                cur = end
        elif op is sc.AT:
            if av in (sc.AT_BEGINNING, sc.AT_BEGINNING_STRING):
                if not is_head:
                    raise NotImplementedError("^ not at the start of the pattern")
            elif av in (sc.AT_END, sc.AT_END_STRING):
                if not is_tail:
                    raise NotImplementedError("$ not at the end of the pattern")
                d = nfa.new(); nfa.e(cur, d); nfa.accept.add(d)
                if av is sc.AT_END:
                    d2 = nfa.new(); nfa.tr.append((d, ONLY_NL, d2)); nfa.accept.add(d2)
                cur = nfa.new()  # nothing may follow: unreachable state
            else:
                raise NotImplementedError(av)
        else:
            raise NotImplementedError((op, av))
    return cur


def regex_nfa(rx):
    flags = rx.flags
    if flags & (re.IGNORECASE | re.MULTILINE | re.LOCALE):
        raise NotImplementedError("flags %r" % flags)
    if isinstance(rx.pattern, bytes):
        raise NotImplementedError("bytes pattern")
    tree = sre_parse.parse(rx.pattern, flags)
    nfa = NFA()
    s = nfa.new()
    e = _build(nfa, list(tree), s, flags, True, True)
    # match() succeeds as soon as the pattern end is reached: any suffix is accepted
    sink = nfa.new()
    nfa.e(e, sink)
    nfa.tr.append((sink, ANYSET, sink))
    nfa.accept.add(sink)
    return nfa, s


class Partition:
    """partition of 0..0x10FFFF into classes; class ids in order of first code point"""

    def __init__(self, intervals_by_class):
        self.classes = intervals_by_class            # list of lists of (lo, hi)
        self.reps = [c[0][0] for c in self.classes]
        starts = sorted((lo, ci) for ci, c in enumerate(self.classes) for lo, _ in c)
        self.table = starts                           # [(lo, class)] ascending: class of cp = entry with greatest lo <= cp
        self._keys = [lo for lo, _ in starts]

    def __len__(self):
        return len(self.classes)

    def cls(self, cp):
        return self.table[bisect.bisect_right(self._keys, cp) - 1][1]

    def word(self, s):
        return [self.cls(ord(ch)) for ch in s]


def make_partition(nfas, singletons=(), extra_key=None):
    """nfas: list of NFA; singletons: code points forced into classes of their own;
    extra_key: cp -> hashable, an additional distinguishing signature (e.g. first-character resolver lists)"""
    bounds = {0, MAXCP}
    allcs = sorted({cs for nfa in nfas for _, cs, _ in nfa.tr})
    for neg, rs in allcs:
        for lo, hi in rs:
            bounds.add(lo); bounds.add(hi + 1)
    for cp in singletons:
        bounds.add(cp); bounds.add(cp + 1)
    bs = sorted(b for b in bounds if 0 <= b <= MAXCP)
    sigs = {}
    single = set(singletons)
    for i in range(len(bs) - 1):
        lo, hi = bs[i], bs[i + 1] - 1
        sig = (tuple(in_set(lo, cs) for cs in allcs), lo if (lo == hi and lo in single) else None,
               extra_key(lo) if (extra_key and lo == hi) else None)
        sigs.setdefault(sig, []).append((lo, hi))
    classes = sorted(sigs.values(), key=lambda c: c[0][0])
    # merge adjacent intervals inside a class
    merged = []
    for c in classes:
        out = []
        for lo, hi in c:
            if out and out[-1][1] + 1 == lo:
                out[-1] = (out[-1][0], hi)
            else:
                out.append((lo, hi))
        merged.append(out)
    return Partition(merged)


def determinise(nfa, start, part):
    def closure(S):
        S = set(S); st = list(S)
        while st:
            q = st.pop()
            for r in nfa.eps.get(q, ()):
                if r not in S:
                    S.add(r); st.append(r)
        return frozenset(S)

    by_src = {}
    for a, cs, d in nfa.tr:
        by_src.setdefault(a, []).append((cs, d))
    s0 = closure({start})
    ids, order, delta = {s0: 0}, [s0], []
    i = 0
    while i < len(order):
        S = order[i]; row = []
        for rep in part.reps:
            T = closure({d for a in S for cs, d in by_src.get(a, ()) if in_set(rep, cs)})
            if T not in ids:
                ids[T] = len(order); order.append(T)
            row.append(ids[T])
        delta.append(row); i += 1
    acc = [bool(S & nfa.accept) for S in order]
    return minimise({"n": len(order), "delta": delta, "acc": acc})


def minimise(dfa):
    """Moore partition refinement; state 0 stays the start state (states renumbered in BFS order from it)"""
    n, delta, acc = dfa["n"], dfa["delta"], dfa["acc"]
    block = [1 if a else 0 for a in acc]
    while True:
        sigs, new = {}, []
        for q in range(n):
            sig = (block[q], tuple(block[t] for t in delta[q]))
            new.append(sigs.setdefault(sig, len(sigs)))
        if len(sigs) == len(set(block)):
            block = new
            break
        block = new
    # BFS renumbering from the start block
    rep = {}
    for q in range(n):
        rep.setdefault(block[q], q)
    order, seen = [block[0]], {block[0]: 0}
    i = 0
    while i < len(order):
        b = order[i]
        for t in delta[rep[b]]:
            if block[t] not in seen:
                seen[block[t]] = len(order); order.append(block[t])
        i += 1
    nd = [[seen[block[t]] for t in delta[rep[b]]] for b in order]
    na = [acc[rep[b]] for b in order]
    return {"n": len(order), "delta": nd, "acc": na}


def compile_patterns(pats, singletons=(NL,), extra_key=None):
    """pats: dict name -> compiled re.  Returns (Partition, {name: dfa})"""
    built = {name: regex_nfa(rx) for name, rx in pats.items()}
    part = make_partition([n for n, _ in built.values()], singletons, extra_key)
    return part, {name: determinise(nfa, s, part) for name, (nfa, s) in built.items()}


def dfa_accepts(dfa, word):
    q = 0
    for c in word:
        q = dfa["delta"][q][c]
    return dfa["acc"][q]


def complement(dfa):
    return {"n": dfa["n"], "delta": dfa["delta"], "acc": [not a for a in dfa["acc"]]}


def coreachable(dfa):
    """states from which an accepting state is reachable"""
    n = dfa["n"]
    rev = [set() for _ in range(n)]
    for q in range(n):
        for t in dfa["delta"][q]:
            rev[t].add(q)
    good = {q for q in range(n) if dfa["acc"][q]}
    st = list(good)
    while st:
        q = st.pop()
        for p in rev[q]:
            if p not in good:
                good.add(p); st.append(p)
    return good


def random_accepted(dfa, rng, max_len=12, stop=0.3):
    """random walk that stays inside the co-reachable part and ends in an accepting state (None if the language is empty)"""
    good = coreachable(dfa)
    if 0 not in good:
        return None
    q, w = 0, []
    while True:
        if dfa["acc"][q] and (len(w) >= max_len or rng.random() < stop):
            return w
        choices = [c for c, t in enumerate(dfa["delta"][q]) if t in good]
        if not choices:
            return w
        if len(w) >= max_len:
            # head for acceptance by the shortest way
            w2 = shortest_from(dfa, q)
            return w + w2
        c = rng.choice(choices)
        w.append(c); q = dfa["delta"][q][c]


def shortest_from(dfa, q0):
    from collections import deque

    prev = {q0: None}
    dq = deque([q0])
    while dq:
        q = dq.popleft()
        if dfa["acc"][q]:
            w = []
            while prev[q] is not None:
                q, c = prev[q]
                w.append(c)
            return w[::-1]
        for c, t in enumerate(dfa["delta"][q]):
            if t not in prev:
                prev[t] = (q, c); dq.append(t)
    return None


class Joint:
    """joint automaton: state = (class of the first character or None, state of every component DFA)"""

    def __init__(self, part, names, dfas):
        self.part, self.names = part, list(names)
        self.dfas = [dfas[n] for n in self.names]
        K = len(part)
        start = (None, tuple(0 for _ in self.dfas))
        self.ids, self.states, self.delta = {start: 0}, [start], []
        i = 0
        while i < len(self.states):
            first, qs = self.states[i]
            row = []
            for c in range(K):
                nxt = (c if first is None else first, tuple(d["delta"][q][c] for d, q in zip(self.dfas, qs)))
                if nxt not in self.ids:
                    self.ids[nxt] = len(self.states); self.states.append(nxt)
                row.append(self.ids[nxt])
            self.delta.append(row); i += 1
        self.n = len(self.states)
        self.K = K

    def run(self, word, q=0):
        for c in word:
            q = self.delta[q][c]
        return q

    def accepts(self, j, name):
        i = self.names.index(name)
        return self.dfas[i]["acc"][self.states[j][1][i]]

    def shortest_words(self, pred, limit=8):
        """shortest class words (BFS order) leading to states satisfying pred(j); at most one word per state"""
        from collections import deque

        prev = {0: None}
        dq = deque([0])
        out = []
        while dq and len(out) < limit:
            j = dq.popleft()
            if pred(j):
                w, q = [], j
                while prev[q] is not None:
                    q, c = prev[q]
                    w.append(c)
                out.append(w[::-1])
            for c, t in enumerate(self.delta[j]):
                if t not in prev:
                    prev[t] = (j, c); dq.append(t)
        return out

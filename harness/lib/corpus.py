"""corpus/<ID>/*.json — minimised past failures and hand-picked seeds, always run first"""
import glob
import json
import os

from .common import CORPUS


def load(prop):
    out = []
    for p in sorted(glob.glob(os.path.join(CORPUS, prop, "*.json"))):
        with open(p) as f:
            out.append(json.load(f))
    return out

"""Shared machinery of every check: context, Lean build/audit, driver I/O,
violations, known findings, evidence.

A check is `run(ctx)` in harness/props/cXX.py.  Exit codes of ./check:
  0  property held on everything explored (KNOWN-FINDING lines allowed)
  1  at least one `VIOLATION property=<id> replay=<path>` line was printed
  2  machinery error (build tool missing, audit failed, timeout, ...)
"""
from __future__ import annotations

import fcntl
import hashlib
import json
import os
import random
import re
import subprocess
import sys
import time
import traceback

VERIF = os.path.dirname(os.path.dirname(os.path.dirname(os.path.abspath(__file__))))
LEAN = os.environ.get("VERIF_LEAN") or os.path.join(VERIF, "lean")  # VERIF_LEAN: private copy of the Lean project (mutant runs only)
REPO = os.environ.get("VERIF_REPO", "/repo")
EVIDENCE = os.path.join(VERIF, "evidence")
REPLAYS = os.path.join(VERIF, "replays")
CORPUS = os.path.join(VERIF, "corpus")
FINDINGS_FILE = os.path.join(VERIF, "known_findings.json")
ALLOWED_AXIOMS = {"propext", "Classical.choice", "Quot.sound"}
FORBIDDEN_RE = re.compile(
    r"\bsorry\b|\badmit\b|^\s*axiom\s|native_decide|bv_decide|implemented_by|\bunsafe\s|maxHeartbeats\s+0\b"
)

TRUSTED_BASE = [
    "Lean 4.33 kernel (thorough tier: leanchecker re-check of the compiled property module)",
    "axioms allowed in property theorems: propext, Classical.choice, Quot.sound (audited by #print axioms every run)",
    "harness/extract.py (regenerates lean/Jap/Gen/*.lean from /repo's working tree)",
    "the correspondence harness, its canonicaliser and generators (harness/props, harness/lib)",
    "Python/PyYAML/argparse/OS behaviour outside the modelled logic (see DESIGN.md section 3)",
]


class MachineryError(Exception):
    pass


def jdump(obj) -> str:
    return json.dumps(obj, sort_keys=True, ensure_ascii=False, default=repr)


def short_hash(obj) -> str:
    return hashlib.sha256(jdump(obj).encode("utf-8", "surrogatepass")).hexdigest()[:12]


def derive_seed(seed: int, *labels) -> int:
    h = hashlib.sha256(("%d|" % seed + "|".join(map(str, labels))).encode()).digest()
    return int.from_bytes(h[:8], "big")


class LeanLock:
    def __enter__(self):
        os.makedirs(os.path.join(LEAN, ".lake"), exist_ok=True)
        self.f = open(os.path.join(LEAN, ".lake", "verif.lock"), "w")
        fcntl.flock(self.f, fcntl.LOCK_EX)
        return self

    def __exit__(self, *a):
        fcntl.flock(self.f, fcntl.LOCK_UN)
        self.f.close()


def load_findings():
    out = []
    if os.path.exists(FINDINGS_FILE):
        with open(FINDINGS_FILE) as f:
            out.extend(json.load(f)["findings"])
    extra = os.path.join(VERIF, "known_findings.d")
    if os.path.isdir(extra):
        for name in sorted(os.listdir(extra)):
            if name.endswith(".json"):
                with open(os.path.join(extra, name)) as f:
                    out.extend(json.load(f)["findings"])
    return out


class Ctx:
    def __init__(self, prop: str, tier: str, seed: int):
        self.prop = prop
        self.tier = tier
        self.seed = seed
        self.t0 = time.time()
        self.rng = random.Random(derive_seed(seed, prop))
        self.violations = []          # list of dicts
        self.known_hits = {}          # finding id -> message
        self.stale_findings = []      # open findings that no longer reproduce
        self.evaluations = 0
        self.distinct = set()
        self.samples = []
        self.dist = {}                # histogram of the input distribution
        self.extra = {}               # extra coverage keys
        self.rule = ""
        self.lean_ok = None           # None = not built, True/False
        self.lean_log = ""
        self.lean_failed_decls = []
        self.obligations = 0
        self.discharged = 0
        self.axioms = {}
        self.tie_broken = []          # names of broken ties (extractor / correspondence / proof)
        self.assumptions = []
        self.findings = [f for f in load_findings() if f["property"] == prop]
        self.search_boost = 1         # multiplied when a tie is broken

    # ----- budget helpers -------------------------------------------------
    @property
    def thorough(self) -> bool:
        return self.tier == "thorough"

    def budget(self, quick: int, thorough: int) -> int:
        return thorough if self.thorough else quick

    def elapsed(self) -> float:
        return time.time() - self.t0

    # ----- coverage -------------------------------------------------------
    def count(self, n: int = 1):
        self.evaluations += n

    def nontrivial(self, key):
        """register a distinct non-trivial case (any hashable / json-able)"""
        if not isinstance(key, (str, bytes, int, tuple)):
            key = jdump(key)
        self.distinct.add(key if isinstance(key, (str, int)) else repr(key))

    def sample(self, obj, cap: int = 6):
        if len(self.samples) < cap:
            self.samples.append(obj)

    def hist(self, bucket: str, key, n: int = 1):
        d = self.dist.setdefault(bucket, {})
        k = str(key)
        d[k] = d.get(k, 0) + n

    # ----- findings -------------------------------------------------------
    def open_findings(self):
        return [f for f in self.findings if f.get("status") == "open"]

    def fixed_findings(self):
        return [f for f in self.findings if f.get("status") == "fixed"]

    def known(self, finding_id: str, what: str):
        """a violation whose signature is an OPEN entry of known_findings.json"""
        if finding_id not in self.known_hits:
            self.known_hits[finding_id] = what

    def is_open(self, finding_id: str) -> bool:
        return any(f["id"] == finding_id for f in self.open_findings())

    # ----- violations -----------------------------------------------------
    def violation(self, what: str, replay: dict, found_input: bool = True):
        """record a violation; `replay` must be JSON-able and self-contained"""
        self.violations_total = getattr(self, "violations_total", 0) + 1
        if len(self.violations) >= 5:  # enough replays; keep the output readable
            return
        os.makedirs(REPLAYS, exist_ok=True)
        body = {
            "property": self.prop,
            "what": what,
            "found_failing_input": found_input,
            "seed": self.seed,
            "tier": self.tier,
            "replay": replay,
        }
        path = os.path.join(REPLAYS, "%s-%s.json" % (self.prop, short_hash(body)))
        with open(path, "w") as f:
            f.write(json.dumps(body, indent=1, ensure_ascii=False, default=repr))
        # at most one line per distinct replay
        if any(v["path"] == path for v in self.violations):
            return
        self.violations.append({"path": path, "what": what, "found_input": found_input})

    def tie_break(self, name: str, detail: str = ""):
        """a proof obligation, an extraction or a correspondence no longer checks"""
        self.tie_broken.append({"name": name, "detail": detail[:2000]})
        self.search_boost = 8

    # ----- Lean -----------------------------------------------------------
    def lean_build(self, targets=None, extractors=None):
        """extract + lake build + audit; never raises on a failed proof (records a tie break).
        `extractors`: names of harness/extractors modules to run (None = all)."""
        from . import leanbuild

        leanbuild.build(self, targets, extractors)

    def replay_fixed_demos(self):
        """every `fixed` finding with a demo script must pass on the current tree"""
        import subprocess

        for f in self.fixed_findings():
            demo = f.get("witness", {}).get("demo")
            if not demo:
                continue
            env = dict(os.environ, PYTHONPATH=REPO)
            p = subprocess.run(["/venv/bin/python", os.path.join(VERIF, demo)], stdout=subprocess.PIPE, stderr=subprocess.STDOUT, text=True, env=env, timeout=300)
            self.count()
            if p.returncode != 0:
                self.violation("repaired defect %s is back: %s" % (f["id"], f["description"]),
                               {"kind": "demo", "demo": demo, "output": p.stdout[-1500:], "run": "/venv/bin/python " + demo})

    def driver(self, name: str, lines, timeout: int = 600):
        from . import leanbuild

        return leanbuild.run_driver(name, lines, timeout=timeout)


def finish(ctx: Ctx, level: str = "proof") -> int:
    """print lines, write evidence, return exit code"""
    # a broken tie without a concrete failing input is still a violation
    if ctx.tie_broken and not any(v["found_input"] for v in ctx.violations):
        names = "; ".join(t["name"] for t in ctx.tie_broken)
        ctx.violation(
            "tie broken, no failing input found: " + names,
            {"broken": ctx.tie_broken, "note": "theorem/correspondence that no longer checks"},
            found_input=False,
        )
    for fid, what in sorted(ctx.known_hits.items()):
        print("KNOWN-FINDING: property=%s %s: %s" % (ctx.prop, fid, what))
    for fid in ctx.stale_findings:
        print("FINDING-NO-LONGER-REPRODUCES: property=%s %s" % (ctx.prop, fid))
    for v in ctx.violations:
        tail = "" if v["found_input"] else " no-failing-input-found"
        print("VIOLATION property=%s replay=%s%s" % (ctx.prop, v["path"], tail))
    write_evidence(ctx, level)
    sys.stdout.flush()
    return 1 if ctx.violations else 0


def write_evidence(ctx: Ctx, level: str = "proof"):
    os.makedirs(EVIDENCE, exist_ok=True)
    cov = {
        "obligations": ctx.obligations,
        "discharged": ctx.discharged,
        "checker_cmd": "cd lean && lake build && lake env lean Jap/Audit/%s.lean  (run by ./check %s)" % (ctx.prop, ctx.prop),
        "trusted_base": TRUSTED_BASE + ["axioms used by this property's theorems: %s" % sorted({a for v in ctx.axioms.values() for a in v})],
        "evaluations": ctx.evaluations,
        "distinct_nontrivial": len(ctx.distinct),
        "rule": ctx.rule,
        "samples": ctx.samples if ctx.samples else ["<none>"],
        "input_distribution": ctx.dist,
        "theorems": sorted(ctx.axioms.keys()),
        "lean_build_ok": ctx.lean_ok,
        "ties_broken": ctx.tie_broken,
        "known_findings_hit": sorted(ctx.known_hits.keys()),
        "exhaustive": False,
    }
    cov.update(ctx.extra)
    if not ctx.discharged:
        # a broken proof obligation: the proof-level keys would be invalid (discharged must be >= 1);
        # report what failed and fall back to the exploration-style counts
        cov["obligations_stated"] = cov.pop("obligations")
        cov.pop("discharged")
        cov["proof_status"] = "BROKEN: lake build of the property module failed (see ties_broken)"
        cov["evaluations"] = max(1, cov["evaluations"])
    ev = {
        "property_id": ctx.prop,
        "tier": ctx.tier,
        "seed": ctx.seed,
        "level": level,
        "coverage": cov,
        "assumptions": ctx.assumptions,
        "wall_s": round(ctx.elapsed(), 2),
        "violations": len(ctx.violations),
    }
    with open(os.path.join(EVIDENCE, ctx.prop + ".json"), "w") as f:
        f.write(json.dumps(ev, indent=1, ensure_ascii=False, default=repr))


def repo_python_path():
    """make sure `import jsonargparse` resolves to REPO's working tree"""
    if REPO not in sys.path:
        sys.path.insert(0, REPO)
    import jsonargparse  # noqa

    got = os.path.dirname(os.path.dirname(os.path.abspath(jsonargparse.__file__)))
    if os.path.realpath(got) != os.path.realpath(REPO):
        raise MachineryError("jsonargparse imported from %s, expected %s" % (got, REPO))

#!/venv/bin/python
"""Assemble DESIGN.md section 11.4 from notes/design_11_4.md (+ per-property text, repairs table, new findings)."""
import glob, json, os, re, subprocess
V = os.path.dirname(os.path.dirname(os.path.abspath(__file__)))
BASE_COMMIT = "f3961c5"   # /repo HEAD at the start of session 2
OLD_OPEN = """C01-json-nonfinite-float C01-json-unreadable-chars C01-yaml-nel C01-skip-default-dict-leaf C01-skip-default-equal-other-type C01-union-serialisation C01-comments-requoted C01-comments-float-digits C01-comments-int-key C01-decimal-via-float C02-literal-pyeq C02-dict-key-unchecked C02-set-element-becomes-unhashable C02-enum-unhashable-no-retry C02-string-sentinel-default C03-selfref-alias C03-subcommand-section-not-mapping C03-subcommand-unknown-name C03-config-not-utf8 C03-huge-int C03-inner-parser-argerr C03-help-parser-exits C03-path-nul-byte C03-stdin-closed C03-default-config-argerr C03-usage-reloads-default-config C03-any-init-args-not-mapping C03-append-key-class-parser C03-print-config-dump-error C03-print-shtab-poisons-parser C04-envcfg-append C04-string-nodefaults C05-null-non-optional C05-literal-int-accepts-bool C05-dict-item-dotted-mapping C05-clash-named-argument C06-leafless-foreign C06-unselected-section C06-dict-kwargs C06-scalar-for-group C06-shadowed-class-arg C06-item-nested-dataclass-nonmapping C06-classpath-sibling-misnamed C06-meta-key-foreign C07-dotted-whole-group C08-ordereddict-shared C10-union-serialisation C10-set-dump-order C10-json-dump-nonfinite-float C10-union-set-dedup-second-pass C10-union-any-second-pass C10-literal-pyeq-second-pass C10-default-not-normalised C10-nested-list-subclass-default C10-json-dump-namespace-in-mixed-container C11-through-dict C12-reserved-names C12-prefix-of-parent-options C12-subcommand-name-is-parent-dest C12-private-optional C12-namespace-member-name-unconverted C12-string-default-reparsed C13-get-forward C13-pop-hardcoded C13-inherited-init-positional C13-conditional-first-crash C13-nested-pop-takes-callee-signature C14-stale-dict-kwargs C14-namespace-member-init-arg-unadapted C14-explicit-none-for-non-optional C14-dotted-sub-option-into-dict-entry C15-list-item-target-in-dump C15-nested-chain C15-skipped-link-target-dropped C15-subcommand-section-emptied C16-nested-target-in-source C16-containment-cycle-accepted C16-nested-source-after-enclosing-group C17-early-selection-drops-settings C17-env-default-config-leak C17-env-named-subcommand-resets-defaults C17-falsy-subcommand-name C18-multifile-partial C18-basename-collision C19-listfile-reresolved C19-default-same-spelling C20-decimal-via-float""".split()

def main():
    fnd = json.load(open(V + "/known_findings.json"))["findings"]
    for p in sorted(glob.glob(V + "/known_findings.d/*.json")):
        fnd += json.load(open(p))["findings"]
    opens = [f for f in fnd if f.get("status") == "open"]
    new = [f for f in opens if f["id"] not in OLD_OPEN]
    closed = sorted(i for i in OLD_OPEN if i not in {f["id"] for f in opens})
    newtxt = "; ".join("%s (%s)" % (f["id"], re.sub(r"\s+", " ", (f.get("description") or "")).strip()[:150].rstrip(" .,;:")) for f in new)
    newtxt += ".\n\nOpen findings of 11.3 that are closed now (repaired in /repo or no longer reproducing, entries moved to `fixed`): " + ", ".join(closed) + "."
    log = subprocess.run(["git", "-C", "/repo", "log", "--reverse", "--format=%h %s", BASE_COMMIT + "..HEAD"], capture_output=True, text=True).stdout.strip().split("\n")
    fx = {}
    for f in fnd:
        if f.get("status") == "fixed" and f.get("commit") and re.match(r"F\d", f["id"]):
            fx[f["commit"]] = f
    for f in fnd:
        if f.get("status") == "fixed" and f.get("commit"):
            fx.setdefault(f["commit"], f)
    rows = []
    for l in log:
        h, s = l.split(" ", 1)
        f = fx.get(h)
        rows.append("| %s | %s | %s | %s |" % (h, f["property"] if f else "?", f["id"] if f else "?", s[5:] if s.startswith("fix: ") else s))
    s = open(V + "/notes/design_11_4.md").read()
    s = s.replace("@@PER_PROPERTY@@", open(V + "/notes/design_11_4_perprop.md").read().rstrip())
    s = s.replace("@@FIXES@@\n", "\n".join(rows) + "\n")
    s = s.replace("@@NEW_FINDINGS@@", newtxt)
    d = open(V + "/DESIGN.md").read()
    block = "<!-- S2-BEGIN -->\n" + s.rstrip() + "\n<!-- S2-END -->"
    if "<!-- S2-BEGIN -->" in d:
        d = re.sub(r"<!-- S2-BEGIN -->.*?<!-- S2-END -->", lambda _: block, d, flags=re.S)
    else:
        d = d.replace("<!-- STATUS-END -->\n", "<!-- STATUS-END -->\n\n" + block + "\n", 1)
    open(V + "/DESIGN.md", "w").write(d)
    print("11.4 written:", len(rows), "repairs,", len(new), "new open findings,", len(closed), "closed")

if __name__ == "__main__":
    main()

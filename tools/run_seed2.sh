#!/bin/sh
# usage: tools/run_seed2.sh C18   -- copies /tmp/seed2/C18/out/{A,B} to seeded/C18-2A/2B and runs try_seed on each
cd "$(dirname "$0")/.." || exit 2
ID=$1
for x in A B; do
  [ -f /tmp/seed2/$ID/out/$x/patch.diff ] || continue
  mkdir -p seeded/$ID-2$x; cp /tmp/seed2/$ID/out/$x/* seeded/$ID-2$x/
  tools/try_seed.py $ID seeded/$ID-2$x 2$x > /tmp/seed2/$ID/try_$x.log 2>&1
  echo "$ID-2$x $(grep -E '^ "caught"|"suite_passes|"demo_on_patched|"patch_applies' /tmp/seed2/$ID/try_$x.log | tr -d '\n ')"
done

#!/bin/sh
# usage: tools/seed_sweep.sh [jobs] [pattern]  -- re-runs every stored seed (seeded/<ID>-<name>) against its own property's
# quick check in parallel (private worktree + private Lean copy each); prints one line per seed.
cd "$(dirname "$0")/.." || exit 2
JOBS="${1:-6}"
PAT="${2:-.}"
ls seeded | grep -E "$PAT" | xargs -P "$JOBS" -I{} sh -c '
  d={}; p=${d%%-*}; n=${d#*-}
  out=$(tools/try_seed.py $p seeded/$d $n --no-suite 2>&1)
  c=$(/venv/bin/python -c "import json;m=json.load(open(\"seeded/$d/meta.json\"));print(m.get(\"caught\"), m.get(\"patch_applies_to_head\", True))")
  echo "$d $c"'

#!/bin/sh
# Runs the repository's pinned suite (guard off) and compares with /root/.vp/BASELINE.json stable_pass.
# usage: tools/run_baseline.sh [repo_dir]
REPO_DIR="${1:-/repo}"
OUT="$(mktemp -d)"
unset JSONARGPARSE_VERIF
cd "$REPO_DIR" && /venv/bin/python -m pytest -ra -q -p no:cacheprovider --timeout=900 --continue-on-collection-errors --junitxml="$OUT/junit.xml" >"$OUT/log.txt" 2>&1
/venv/bin/python - "$OUT/junit.xml" <<'PY'
import json, sys, xml.etree.ElementTree as ET
base = set(json.load(open('/root/.vp/BASELINE.json'))['stable_pass'])
t = ET.parse(sys.argv[1]).getroot()
passed = set()
for tc in t.iter('testcase'):
    if not any(c.tag in ('failure', 'error', 'skipped') for c in tc):
        passed.add(tc.get('classname') + '::' + tc.get('name'))
missing = sorted(base - passed)
print('baseline stable_pass:', len(base), 'passed now:', len(passed), 'baseline tests not passing:', len(missing))
for m in missing[:20]:
    print('  NOT PASSING:', m)
sys.exit(1 if missing else 0)
PY
RC=$?
rm -rf "$OUT"
exit $RC

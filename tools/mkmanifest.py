#!/venv/bin/python
"""Build MANIFEST.json from the MANIFEST dict of every harness/props/cXX.py and validate it."""
import importlib
import json
import os
import sys

VERIF = os.path.dirname(os.path.dirname(os.path.abspath(__file__)))
sys.path.insert(0, VERIF)

ALL = ["C%02d" % i for i in range(1, 21)]
# checks that have been reviewed and integrated (builders' work in progress is not registered)
READY_FILE = os.path.join(VERIF, "tools", "ready.txt")
NOT_APPLICABLE = {}  # id -> reason, for properties no executable model can express (none so far)


def main():
    checks, missing = [], []
    engines = {}
    ready = set(open(READY_FILE).read().split())
    for pid in ALL:
        path = os.path.join(VERIF, "harness", "props", pid.lower() + ".py")
        if pid not in ready or not os.path.exists(path):
            missing.append(pid)
            continue
        mod = importlib.import_module("harness.props." + pid.lower())
        m = getattr(mod, "MANIFEST", None)
        if not m:
            missing.append(pid)
            continue
        checks.append({
            "property_id": pid,
            "quick_cmd": "./check %s --tier quick" % pid,
            "thorough_cmd": "./check %s --tier thorough" % pid,
            "evidence_file": "/verif/evidence/%s.json" % pid,
            "replay_cmd_template": "./check %s --replay {path}" % pid,
            "engine": m["engine"],
            "level_claimed": {"category": m.get("category", "proof"), "text": m["text"], "design_ref": m.get("design_ref", "DESIGN.md section 6 " + pid)},
            "level_note": m["level_note"],
            "technique": m["technique"],
        })
        for e in m.get("engines", [m["engine"]]):
            engines.setdefault(e, []).append(pid)
    na = [{"property_id": p, "reason": NOT_APPLICABLE.get(p, "check not built yet in this round (work in progress; the design in DESIGN.md section 6 applies)")} for p in missing]
    manifest = {
        "version": 1,
        "setup_cmd": "cd /verif && ./setup.sh",
        "hooks": {
            "guard": "JSONARGPARSE_VERIF",
            "enable": "no source hooks are needed: every observation goes through the public API or through patching done inside the harness process; the variable is reserved",
            "baseline_off_cmd": "/verif/tools/run_baseline.sh",
            "source_commits": [],
            "add_only": True,
        },
        "engines": [{"name": e, "path": "lean/Jap/Core + harness/props", "serves_properties": ps, "kind_free_text": "Lean 4 model + theorems, tied to /repo by regenerated tables and a differential correspondence harness"} for e, ps in sorted(engines.items())],
        "checks": checks,
        "not_applicable": na,
        "notes": "Single entry point ./check <ID> --tier quick|thorough. Exit 0 held / 1 VIOLATION / 2 machinery error. Known findings: known_findings.json. Fix commits in /repo are listed there under 'fixed'.",
    }
    with open(os.path.join(VERIF, "MANIFEST.json"), "w") as f:
        json.dump(manifest, f, indent=1)
    try:
        import jsonschema
        jsonschema.validate(manifest, json.load(open("/root/.vp/MANIFEST.schema.json")))
        print("MANIFEST.json valid;", len(checks), "checks,", len(na), "not claimed")
    except ImportError:
        print("MANIFEST.json written (jsonschema not available for validation);", len(checks), "checks")


if __name__ == "__main__":
    main()

#!/bin/sh
# usage: tools/run_seed5.sh C18   -- copies /tmp/seed5/C18/out/{A,B} to seeded/C18-2A/2B and runs try_seed on each
cd "$(dirname "$0")/.." || exit 2
ID=$1
for x in A B; do
  [ -f /tmp/seed5/$ID/out/$x/patch.diff ] || continue
  mkdir -p seeded/$ID-5$x; cp /tmp/seed5/$ID/out/$x/* seeded/$ID-5$x/
  tools/try_seed.py $ID seeded/$ID-5$x 5$x > /tmp/seed5/$ID/try_$x.log 2>&1
  echo "$ID-5$x $(grep -E '^ "caught"|"suite_passes|"demo_on_patched|"patch_applies' /tmp/seed5/$ID/try_$x.log | tr -d '\n ')"
done

#!/bin/sh
# usage: tools/sweep.sh "C11 C16" "0 1 2 3"   -- runs quick checks for every (property, seed), sequentially per property
cd "$(dirname "$0")/.." || exit 2
PROPS="${1:-$(cat tools/ready.txt)}"
SEEDS="${2:-0 1 2 3 4 5}"
for p in $PROPS; do
  for s in $SEEDS; do
    START=$(date +%s)
    OUT=$(VERIF_SEED=$s ./check $p --tier quick 2>&1); RC=$?
    END=$(date +%s)
    echo "$p seed=$s rc=$RC $((END-START))s $(echo "$OUT" | grep -c '^VIOLATION') violations $(echo "$OUT" | grep -c '^KNOWN-FINDING') known"
    if [ $RC -ne 0 ]; then echo "$OUT" | grep -E '^(VIOLATION|MACHINERY)' | head -3; fi
  done
done

#!/venv/bin/python
"""Confirm a seeded defect and run a check against it, in a scratch worktree (never in /repo itself).

usage: tools/try_seed.py <PROP> <seed_dir> <name> [--tier quick|thorough] [--no-suite] [--checks C01,C10]
<seed_dir> holds patch.diff, demo.py, notes.md.  Result is stored in /verif/seeded/<PROP>-<name>/.
"""
import json
import os
import shutil
import subprocess
import sys
import tempfile

VERIF = os.path.dirname(os.path.dirname(os.path.abspath(__file__)))


def sh(cmd, cwd=None, env=None, timeout=3600):
    p = subprocess.run(cmd, cwd=cwd, env=env, stdout=subprocess.PIPE, stderr=subprocess.STDOUT, text=True, timeout=timeout)
    return p.returncode, p.stdout


def main():
    prop, seed_dir, name = sys.argv[1:4]
    seed_dir = os.path.abspath(seed_dir)
    tier = "quick"
    suite = "--no-suite" not in sys.argv
    if "--tier" in sys.argv:
        tier = sys.argv[sys.argv.index("--tier") + 1]
    checks = [prop]
    if "--checks" in sys.argv:
        checks = sys.argv[sys.argv.index("--checks") + 1].split(",")
    wt = tempfile.mkdtemp(prefix="seedwt_", dir="/tmp")
    os.rmdir(wt)
    out = os.path.join(VERIF, "seeded", "%s-%s" % (prop, name))
    meta = {"property": prop, "name": name, "ran": []}
    try:
        rc, o = sh(["git", "-C", "/repo", "worktree", "add", "--detach", wt, "HEAD", "-q"])
        assert rc == 0, o
        env = dict(os.environ, PYTHONPATH=wt)
        demo = os.path.join(seed_dir, "demo.py")
        rc0, o0 = sh(["/venv/bin/python", demo], cwd=wt, env=env, timeout=600)
        meta["demo_on_clean_rc"] = rc0
        rc, o = sh(["git", "-C", wt, "apply", os.path.join(seed_dir, "patch.diff")])
        meta["patch_applies"] = rc == 0
        rebased = os.path.join(seed_dir, "patch.rebased.diff")
        if rc != 0 and os.path.exists(rebased):
            # /repo moved under the seed (repairs): the same edit ported to the current code
            rc, o = sh(["git", "-C", wt, "apply", rebased])
            meta["patch_applies"] = rc == 0
            meta["rebased_patch_used"] = True
        if rc != 0:
            print("PATCH DOES NOT APPLY:", o)
            meta["caught"] = None
            meta["note"] = "patch no longer applies to /repo HEAD (the code it edits was repaired); last results kept"
            old = json.load(open(os.path.join(out, "meta.json"))) if os.path.exists(os.path.join(out, "meta.json")) else {}
            old["patch_applies_to_head"] = False
            old["note"] = meta["note"]
            if old:
                json.dump(old, open(os.path.join(out, "meta.json"), "w"), indent=1)
            return 2
        rc1, o1 = sh(["/venv/bin/python", demo], cwd=wt, env=env, timeout=600)
        meta["demo_on_patched_rc"] = rc1
        meta["demo_on_patched_output_tail"] = o1[-600:]
        if suite:
            rcs, os_ = sh([os.path.join(VERIF, "tools", "run_baseline.sh"), wt], timeout=1800)
            meta["suite_passes_with_patch"] = rcs == 0
            meta["suite_summary"] = os_.strip().split("\n")[0]
        results = {}
        ev_backup = {}
        for c in checks:
            evp = os.path.join(VERIF, "evidence", c + ".json")
            if os.path.exists(evp):
                ev_backup[evp] = open(evp).read()
        # private copy of the Lean project: regenerated tables of a mutant never touch /verif/lean
        leancopy = wt + "_lean"
        sh(["cp", "-a", os.path.join(VERIF, "lean"), leancopy])
        for c in checks:
            envc = dict(os.environ, VERIF_REPO=wt, VERIF_LEAN=leancopy)
            rcc, oc = sh([os.path.join(VERIF, "check"), c, "--tier", tier], cwd=VERIF, env=envc, timeout=7200)
            lines = [l[:300] for l in oc.split("\n") if l.startswith(("VIOLATION", "MACHINERY", "KNOWN-FINDING"))]
            results[c] = {"rc": rcc, "lines": lines[:8]}
            meta["ran"].append("VERIF_REPO=<worktree with patch> ./check %s --tier %s -> exit %d" % (c, tier, rcc))
        meta["check_results"] = results
        for evp, content in ev_backup.items():  # evidence files must come from runs against /repo itself
            open(evp, "w").write(content)
        meta["caught"] = any(r["rc"] == 1 for r in results.values())
    finally:
        sh(["git", "-C", "/repo", "worktree", "remove", "--force", wt])
        shutil.rmtree(wt, ignore_errors=True)
        shutil.rmtree(wt + "_lean", ignore_errors=True)
    os.makedirs(out, exist_ok=True)
    for f in ("patch.diff", "demo.py", "notes.md"):
        if os.path.exists(os.path.join(seed_dir, f)) and os.path.abspath(seed_dir) != os.path.abspath(out):
            shutil.copy(os.path.join(seed_dir, f), os.path.join(out, f))
    notes = open(os.path.join(seed_dir, "notes.md")).read() if os.path.exists(os.path.join(seed_dir, "notes.md")) else ""
    meta["needs_to_manifest"] = notes[:1500]
    old = {}
    if os.path.exists(os.path.join(out, "meta.json")):
        old = json.load(open(os.path.join(out, "meta.json")))
    merged = dict(old.get("check_results", {}))
    merged.update(meta.get("check_results", {}))
    meta["check_results"] = merged
    meta["caught"] = any(r["rc"] == 1 for r in merged.values())
    meta["history"] = old.get("history", []) + [{"caught": meta.get("caught"), "checks": {k: v["rc"] for k, v in meta.get("check_results", {}).items()}}]
    json.dump(meta, open(os.path.join(out, "meta.json"), "w"), indent=1)
    print(json.dumps({k: meta[k] for k in meta if k not in ("needs_to_manifest", "demo_on_patched_output_tail")}, indent=1))
    return 0


if __name__ == "__main__":
    sys.exit(main())

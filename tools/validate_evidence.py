#!/venv/bin/python
"""Validate evidence/*.json against /root/.vp/EVIDENCE.schema.json and MANIFEST.json against its schema."""
import glob, json, os, sys
import jsonschema
VERIF = os.path.dirname(os.path.dirname(os.path.abspath(__file__)))
sch = json.load(open("/root/.vp/EVIDENCE.schema.json"))
bad = 0
for p in sorted(glob.glob(os.path.join(VERIF, "evidence", "*.json"))):
    try:
        ev = json.load(open(p))
        jsonschema.validate(ev, sch)
        c = ev["coverage"]
        print("%s ok  tier=%s level=%s obligations=%s/%s evals=%s distinct=%s wall=%ss violations=%s" % (
            os.path.basename(p), ev["tier"], ev["level"], c.get("discharged"), c.get("obligations"),
            c.get("evaluations"), c.get("distinct_nontrivial"), ev["wall_s"], ev.get("violations")))
    except Exception as ex:
        bad += 1
        print("%s INVALID: %s" % (os.path.basename(p), str(ex)[:300]))
jsonschema.validate(json.load(open(os.path.join(VERIF, "MANIFEST.json"))), json.load(open("/root/.vp/MANIFEST.schema.json")))
print("MANIFEST ok")
sys.exit(1 if bad else 0)

import json, os, subprocess, sys, shutil
V='/verif'; R='/repo'
def sh(cmd, **kw):
    p = subprocess.run(cmd, stdout=subprocess.PIPE, stderr=subprocess.STDOUT, text=True, **kw); return p.returncode, p.stdout
dirs = sorted(d for d in os.listdir(V+"/fixes/proposed") if os.path.isdir(V+"/fixes/proposed/"+d) and d.split("_")[0] in sys.argv[1:])
kf = json.load(open(V+'/known_findings.json'))
env = dict(os.environ, PYTHONPATH=R)
for d in dirs:
    p = V+'/fixes/proposed/'+d
    e = json.load(open(p+'/entry.json'))
    rc0,_ = sh(['/venv/bin/python', p+'/demo.py'], cwd='/tmp', env=env)
    rc,o = sh(['git','-C',R,'apply',p+'/patch.diff'])
    if rc: print('APPLY FAILED', d, o); sys.exit(1)
    rc1,o1 = sh(['/venv/bin/python', p+'/demo.py'], cwd='/tmp', env=env)
    if rc0 != 1 or rc1 != 0:
        print('DEMO DOES NOT FLIP', d, rc0, rc1, o1[-500:]); sh(['git','-C',R,'checkout','--','.']); sys.exit(1)
    sh(['git','-C',R,'add','-A']); rc,o = sh(['git','-C',R,'commit','-q','-m',e['subject']])
    h = sh(['git','-C',R,'rev-parse','--short','HEAD'])[1].strip()
    slug = d.split('_',1)[1]
    demo = 'fixes/f%s_%s.py' % (d.split('_')[0], slug)
    shutil.copy(p+'/demo.py', V+'/'+demo)
    kf['findings'].append({"property": e['property'], "id": e['id'], "status": "fixed", "commit": h, "description": e['description'], "witness": {"demo": demo}})
    kf['fixed'].append("fixed: property=%s %s %s" % (e['property'], h, e['fixed_line']))
    print(d, h, e['subject'])
json.dump(kf, open(V+'/known_findings.json','w'), indent=1, ensure_ascii=False)

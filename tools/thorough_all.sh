#!/bin/sh
# usage: tools/thorough_all.sh "C01 C02 ..."  -- one thorough run per property, sequentially; one line each
cd "$(dirname "$0")/.." || exit 2
for p in $1; do
  START=$(date +%s)
  OUT=$(./check $p --tier thorough 2>&1); RC=$?
  END=$(date +%s)
  echo "$p thorough rc=$RC $((END-START))s $(echo "$OUT" | grep -c '^VIOLATION') violations"
  if [ $RC -ne 0 ]; then echo "$OUT" | grep -E '^(VIOLATION|MACHINERY)' | head -3; fi
done

#!/bin/sh
# usage: tools/run_seed3.sh C18   -- copies /tmp/seed3/C18/out/{A,B} to seeded/C18-2A/2B and runs try_seed on each
cd "$(dirname "$0")/.." || exit 2
ID=$1
for x in A B; do
  [ -f /tmp/seed3/$ID/out/$x/patch.diff ] || continue
  mkdir -p seeded/$ID-3$x; cp /tmp/seed3/$ID/out/$x/* seeded/$ID-3$x/
  tools/try_seed.py $ID seeded/$ID-3$x 3$x > /tmp/seed3/$ID/try_$x.log 2>&1
  echo "$ID-3$x $(grep -E '^ "caught"|"suite_passes|"demo_on_patched|"patch_applies' /tmp/seed3/$ID/try_$x.log | tr -d '\n ')"
done

#!/bin/sh
# usage: tools/thorough_some.sh "C03 C04 ..."  [parallelism]  -- runs thorough tier, logs to /tmp/thorough/<ID>.log, restores quick evidence afterwards? no: keeps thorough evidence
cd "$(dirname "$0")/.." || exit 2
mkdir -p /tmp/thorough
echo "$1" | tr ' ' '\n' | xargs -P "${2:-4}" -I{} sh -c 'S=$(date +%s); ./check {} --tier thorough > /tmp/thorough/{}.log 2>&1; RC=$?; E=$(date +%s); echo "{} rc=$RC $((E-S))s violations=$(grep -c "^VIOLATION" /tmp/thorough/{}.log) known=$(grep -c "^KNOWN" /tmp/thorough/{}.log)"'

#!/bin/sh
# Offline build of the framework after a fresh restore: regenerate tables from /repo, build all Lean modules.
cd "$(dirname "$0")" || exit 2
/venv/bin/python -m harness.extract || exit 2
cd lean && lake build 2>&1 | tail -5

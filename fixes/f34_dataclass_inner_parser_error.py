"""A dataclass nested in a container (List[DC], Dict[str, DC], Optional fields): an unexpected key is reported by the internal parser as ArgumentError; with exit_on_error=True the caller must still get exit status 2."""
import contextlib
import io
import sys

from jsonargparse import ArgumentError, ArgumentParser

bad = []


def check(what, call, exit_on_error, want=None):
    """the call must return (a value equal to `want`, when given) or fail through the documented channel:
    ArgumentError when exit_on_error is false, usage + error line on stderr and exit status 2 otherwise"""
    err = io.StringIO()
    try:
        with contextlib.redirect_stderr(err), contextlib.redirect_stdout(io.StringIO()):
            got = call()
    except ArgumentError as ex:
        if exit_on_error:
            bad.append("%s: ArgumentError raised although exit_on_error=True: %s" % (what, str(ex).split("\n")[-1][:100]))
        elif want is not None:
            bad.append("%s: rejected, expected %r: %s" % (what, want, str(ex).split("\n")[-1][:100]))
    except SystemExit as ex:
        ok = exit_on_error and ex.code == 2 and "usage:" in err.getvalue() and "error:" in err.getvalue()
        if not ok:
            bad.append("%s: SystemExit(%r) with exit_on_error=%s" % (what, ex.code, exit_on_error))
        elif want is not None:
            bad.append("%s: rejected, expected %r" % (what, want))
    except Exception as ex:
        bad.append("%s: %s escaped instead of the documented error channel: %s" % (what, type(ex).__name__, str(ex)[:100]))
    else:
        if want is not None and got != want:
            bad.append("%s: returned %r, expected %r" % (what, got, want))


def finish():
    if bad:
        print("FAIL:\n  " + "\n  ".join(bad))
        sys.exit(1)
    print("OK")
    sys.exit(0)


from dataclasses import dataclass
from typing import Dict, List


@dataclass
class Point:
    x: int = 0
    y: int = 0


for eoe in (False, True):
    p = ArgumentParser(exit_on_error=eoe)
    p.add_argument("--pts", type=List[Point])
    p.add_argument("--named", type=Dict[str, Point])
    check("parse_object({'pts': [{'x': 1, 'z': 2}]}) exit_on_error=%s" % eoe, lambda: p.parse_object({"pts": [{"x": 1, "z": 2}]}), eoe)
    check("parse_args(['--pts', '[{\"x\": \"a\"}]']) exit_on_error=%s" % eoe, lambda: p.parse_args(["--pts", '[{"x": "a"}]']), eoe)
    check("parse_string('named: {a: {q: 1}}') exit_on_error=%s" % eoe, lambda: p.parse_string("named: {a: {q: 1}}"), eoe)
    check("parse_args(['--pts', '[{\"x\": 1}]']).pts[0].x exit_on_error=%s" % eoe, lambda: p.parse_args(["--pts", '[{"x": 1}]']).pts[0].x, eoe, want=1)
finish()

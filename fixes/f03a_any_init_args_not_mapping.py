# C03: a value for an Any-typed argument that looks like a class spec but has non-mapping init_args is just a value
from typing import Any
from jsonargparse import ArgumentParser, ArgumentError
class Sub:
    def __init__(self, a: int = 1):
        pass
p = ArgumentParser(exit_on_error=False)
p.add_argument("--any", type=Any)
try:
    r = p.parse_args(["--any", '{"class_path": "__main__.Sub", "init_args": 3}'])
    print("accepted as given:", r.any); ok = r.any == {"class_path": "__main__.Sub", "init_args": 3}
except ArgumentError as ex:
    print("rejected:", ex); ok = True
except Exception as ex:  # noqa: BLE001
    print("wrong exception:", type(ex).__name__, ex); ok = False
r = p.parse_args(["--any", '{"class_path": "__main__.Sub", "init_args": {"a": 2}}'])
assert r.any.init_args.a == 2, r
raise SystemExit(0 if ok else 1)

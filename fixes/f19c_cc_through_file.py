# C19: a path below a regular file can never be created, so mode fcc must reject it
import os, tempfile, shutil
from jsonargparse import Path
d = tempfile.mkdtemp(); f = os.path.join(d, 'file'); open(f, 'w').write('x')
try:
    try: Path(os.path.join(f, 'a', 'below'), 'fcc'); print('accepted'); ok = False
    except TypeError as ex: print('rejected:', ex); ok = True
    Path(os.path.join(d, 'new', 'deeper', 'x'), 'fcc')   # still creatable below an existing directory
finally:
    shutil.rmtree(d)
raise SystemExit(0 if ok else 1)

"""parser_mode='json': an integer literal beyond Python's int conversion limit makes json.loads raise a plain ValueError; it must be a parse error."""
import contextlib
import io
import sys

from jsonargparse import ArgumentError, ArgumentParser

bad = []


def check(what, call, exit_on_error, want=None):
    """the call must return (a value equal to `want`, when given) or fail through the documented channel:
    ArgumentError when exit_on_error is false, usage + error line on stderr and exit status 2 otherwise"""
    err = io.StringIO()
    try:
        with contextlib.redirect_stderr(err), contextlib.redirect_stdout(io.StringIO()):
            got = call()
    except ArgumentError as ex:
        if exit_on_error:
            bad.append("%s: ArgumentError raised although exit_on_error=True: %s" % (what, str(ex).split("\n")[-1][:100]))
        elif want is not None:
            bad.append("%s: rejected, expected %r: %s" % (what, want, str(ex).split("\n")[-1][:100]))
    except SystemExit as ex:
        ok = exit_on_error and ex.code == 2 and "usage:" in err.getvalue() and "error:" in err.getvalue()
        if not ok:
            bad.append("%s: SystemExit(%r) with exit_on_error=%s" % (what, ex.code, exit_on_error))
        elif want is not None:
            bad.append("%s: rejected, expected %r" % (what, want))
    except Exception as ex:
        bad.append("%s: %s escaped instead of the documented error channel: %s" % (what, type(ex).__name__, str(ex)[:100]))
    else:
        if want is not None and got != want:
            bad.append("%s: returned %r, expected %r" % (what, got, want))


def finish():
    if bad:
        print("FAIL:\n  " + "\n  ".join(bad))
        sys.exit(1)
    print("OK")
    sys.exit(0)


huge = "1" * 5000
for eoe in (False, True):
    p = ArgumentParser(exit_on_error=eoe, parser_mode="json")
    p.add_argument("--cfg", action="config")
    p.add_argument("--i", type=int)
    p.add_argument("--l", type=list)
    check("parse_string('{\"i\": <5000 digits>}') exit_on_error=%s" % eoe, lambda: p.parse_string('{"i": %s}' % huge), eoe)
    check("parse_args(['--cfg', '{\"i\": <5000 digits>}']) exit_on_error=%s" % eoe, lambda: p.parse_args(["--cfg", '{"i": %s}' % huge]), eoe)
    check("parse_args(['--l', '[<5000 digits>]']) exit_on_error=%s" % eoe, lambda: p.parse_args(["--l", "[%s]" % huge]), eoe)
    check("parse_string('{\"i\": 12}').i exit_on_error=%s" % eoe, lambda: p.parse_string('{"i": 12}').i, eoe, want=12)
    check("parse_string('{\"i\": 1,}') exit_on_error=%s" % eoe, lambda: p.parse_string('{"i": 1,}'), eoe)
finish()

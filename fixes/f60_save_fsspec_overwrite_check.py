"""save() to an fsspec path (memory://): an existing file is replaced only with overwrite=True, and the
NotImplementedError for multifile=True is raised before the target is touched."""
import sys

try:
    import fsspec
    from jsonargparse._optionals import fsspec_support
    assert fsspec_support
    mem = fsspec.filesystem("memory")
except Exception:
    print("OK (fsspec not importable: save() has no fsspec branch here)"); sys.exit(0)
from jsonargparse import ArgumentParser

URL = "memory://verif-f60/config.yaml"
p = ArgumentParser(exit_on_error=False)
p.add_argument("--a", type=int, default=1)
cfg = p.parse_args(["--a=2"])


def put(text):
    with fsspec.open(URL, "w") as f:
        f.write(text)


def get():
    return mem.cat("/verif-f60/config.yaml").decode() if mem.exists("/verif-f60/config.yaml") else None


def run(**kw):
    try:
        p.save(cfg, URL, **kw)
        return "ok"
    except Exception as ex:
        return "%s: %s" % (type(ex).__name__, str(ex)[:60])


bad = []
put("precious: 1\n")
r = run(multifile=False)
if not r.startswith("ValueError: Refusing to overwrite") or get() != "precious: 1\n":
    bad.append("existing target, overwrite not requested: save -> %s, file now %r" % (r, get()))
put("precious: 1\n")
r = run()
if not r.startswith("NotImplementedError") or get() != "precious: 1\n":
    bad.append("existing target, multifile left at its default: save -> %s, file now %r" % (r, get()))
put("precious: 1\n")
r = run(multifile=False, overwrite=True)
if r != "ok" or get() != p.dump(cfg):
    bad.append("existing target, overwrite=True: save -> %s, file now %r" % (r, get()))
mem.rm("/verif-f60", recursive=True)
r = run(multifile=False)
if r != "ok" or get() != p.dump(cfg):
    bad.append("new target: save -> %s, file now %r" % (r, get()))
r = run(overwrite=True)
if not r.startswith("NotImplementedError") or get() != p.dump(cfg):
    bad.append("multifile=True with overwrite=True: save -> %s, file now %r" % (r, get()))
if mem.exists("/verif-f60"):
    mem.rm("/verif-f60", recursive=True)
if bad:
    print("FAIL:\n  " + "\n  ".join(bad)); sys.exit(1)
print("OK"); sys.exit(0)

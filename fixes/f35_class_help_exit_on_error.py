"""--ARG.help=CLASS followed by an argument the help parser rejects: with exit_on_error=False the caller must get ArgumentError, not SystemExit(2) from an internal parser built with the default exit_on_error."""
import contextlib
import io
import sys

from jsonargparse import ArgumentError, ArgumentParser

bad = []


def check(what, call, exit_on_error, want=None):
    """the call must return (a value equal to `want`, when given) or fail through the documented channel:
    ArgumentError when exit_on_error is false, usage + error line on stderr and exit status 2 otherwise"""
    err = io.StringIO()
    try:
        with contextlib.redirect_stderr(err), contextlib.redirect_stdout(io.StringIO()):
            got = call()
    except ArgumentError as ex:
        if exit_on_error:
            bad.append("%s: ArgumentError raised although exit_on_error=True: %s" % (what, str(ex).split("\n")[-1][:100]))
        elif want is not None:
            bad.append("%s: rejected, expected %r: %s" % (what, want, str(ex).split("\n")[-1][:100]))
    except SystemExit as ex:
        ok = exit_on_error and ex.code == 2 and "usage:" in err.getvalue() and "error:" in err.getvalue()
        if not ok:
            bad.append("%s: SystemExit(%r) with exit_on_error=%s" % (what, ex.code, exit_on_error))
        elif want is not None:
            bad.append("%s: rejected, expected %r" % (what, want))
    except Exception as ex:
        bad.append("%s: %s escaped instead of the documented error channel: %s" % (what, type(ex).__name__, str(ex)[:100]))
    else:
        if want is not None and got != want:
            bad.append("%s: returned %r, expected %r" % (what, got, want))


def finish():
    if bad:
        print("FAIL:\n  " + "\n  ".join(bad))
        sys.exit(1)
    print("OK")
    sys.exit(0)


import calendar

for eoe in (False, True):
    p = ArgumentParser(exit_on_error=eoe)
    p.add_argument("--cal", type=calendar.Calendar)
    check("parse_args(['--cal.help=calendar.TextCalendar', '--cal.nope=1']) exit_on_error=%s" % eoe,
          lambda: p.parse_args(["--cal.help=calendar.TextCalendar", "--cal.nope=1"]), eoe)
    check("parse_args(['--cal.help=calendar.TextCalendar', 'extra']) exit_on_error=%s" % eoe,
          lambda: p.parse_args(["--cal.help=calendar.TextCalendar", "extra"]), eoe)
# the help itself still prints and exits 0
out = io.StringIO()
try:
    with contextlib.redirect_stdout(out):
        ArgumentParser(exit_on_error=False).parse_args(["-h"])
except SystemExit as ex:
    if ex.code != 0:
        bad.append("-h exits %r" % ex.code)
p = ArgumentParser(exit_on_error=False)
p.add_argument("--cal", type=calendar.Calendar)
try:
    with contextlib.redirect_stdout(out):
        p.parse_args(["--cal.help=calendar.TextCalendar"])
    bad.append("--cal.help=calendar.TextCalendar returned")
except SystemExit as ex:
    if ex.code != 0 or "firstweekday" not in out.getvalue():
        bad.append("--cal.help=calendar.TextCalendar: exit %r, help text %r" % (ex.code, out.getvalue()[-80:]))
finish()

# C18: saving next to a file whose content is to be copied (save_path_content) must not empty that file
import os, tempfile, shutil
from jsonargparse import ArgumentParser
from jsonargparse.typing import Path_fr
d = tempfile.mkdtemp(); cwd = os.getcwd(); os.chdir(d)
try:
    open('file.txt', 'w').write('precious\n')
    p = ArgumentParser(exit_on_error=False); p.add_argument('--f', type=Path_fr); p.save_path_content.add('f')
    cfg = p.parse_args(['--f=file.txt'])
    p.save(cfg, os.path.join(d, 'main.yaml'), overwrite=True)
    content = open('file.txt').read(); print(repr(content))
finally:
    os.chdir(cwd); shutil.rmtree(d)
raise SystemExit(0 if content == 'precious\n' else 1)

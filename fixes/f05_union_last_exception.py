# C02: Union acceptance must not depend on member order
from typing import Union, List
from jsonargparse import ArgumentParser, ArgumentError
def acc(t, arg):
    p = ArgumentParser(exit_on_error=False); p.add_argument('--v', type=t)
    try: return ('ok', p.parse_args(['--v=' + arg]).v)
    except ArgumentError: return ('rej',)
bad = []
for a, b, arg in [(Union[str, int], Union[int, str], 'null'), (Union[str, List[int]], Union[List[int], str], '[1, "a"]')]:
    ra, rb = acc(a, arg), acc(b, arg)
    if ra != rb: bad.append((str(a), arg, ra, rb))
print('bad:', bad); raise SystemExit(1 if bad else 0)

"""yaml_load: a mapping with one non-string key whose value is null must load like any other mapping."""
import sys
from typing import Dict, Optional
from jsonargparse import ArgumentParser
from jsonargparse._loaders_dumpers import yaml_load

bad = []
try:
    v = yaml_load("{0: null}")
    if v != {0: None}:
        bad.append("yaml_load('{0: null}') -> %r" % (v,))
except Exception as ex:
    bad.append("yaml_load('{0: null}') raised %s: %s" % (type(ex).__name__, ex))
p = ArgumentParser(exit_on_error=False)
p.add_argument("--d", type=Dict[int, Optional[int]])
for text, want in (("{0: null}", {0: None}), ("{0: null, 1: null}", {0: None, 1: None}), ("{7: null}", {7: None})):
    try:
        got = p.parse_args(["--d", text]).d
        if got != want:
            bad.append("--d %r -> %r, expected %r" % (text, got, want))
    except Exception as ex:
        bad.append("--d %r rejected: %s: %s" % (text, type(ex).__name__, str(ex).split("\n")[-1][:120]))
if bad:
    print("FAIL:\n  " + "\n  ".join(bad)); sys.exit(1)
print("OK"); sys.exit(0)

# C03/C17: an explicit subcommand name that is unknown (or empty) in a config/object must be a parse error, never an
# AttributeError on a None sub-parser, and never "every section survives"
import warnings
warnings.simplefilter("ignore")
from jsonargparse import ArgumentParser, ArgumentError
def mk(required):
    p = ArgumentParser(exit_on_error=False)
    sc = p.add_subcommands(required=required, dest="cmd")
    a = ArgumentParser(exit_on_error=False); a.add_argument("--x", type=int, default=1)
    b = ArgumentParser(exit_on_error=False); b.add_argument("--y", type=int, default=2)
    sc.add_subcommand("fit", a); sc.add_subcommand("test", b)
    return p
bad = 0
for required in (True, False):
    for label, call in (("unknown name (object)", lambda p: p.parse_object({"cmd": "zap", "fit": {"x": 3}})),
                        ("unknown name (string)", lambda p: p.parse_string("cmd: zap\n")),
                        ("empty name", lambda p: p.parse_object({"cmd": "", "fit": {"x": 3}, "test": {"y": 4}}))):
        try:
            r = call(mk(required)); print("accepted:", label, required, r); bad += 1
        except ArgumentError as ex:
            print("rejected:", label, required, str(ex)[:80])
        except Exception as ex:  # noqa: BLE001
            print("wrong exception:", label, required, type(ex).__name__, ex); bad += 1
assert mk(True).parse_object({"cmd": "fit", "fit": {"x": 3}}).fit.x == 3
assert mk(False).parse_object({}).cmd is None if "cmd" in mk(False).parse_object({}) else True
raise SystemExit(1 if bad else 0)

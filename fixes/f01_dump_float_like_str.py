# C01: a str value that the loader would resolve as float must survive dump -> parse
from jsonargparse import ArgumentParser
p = ArgumentParser(exit_on_error=False); p.add_argument('--s', type=str)
bad = []
for s in ['1e3', '+1e3', '1.e3', '1_0e3', '._5', '._', '1E5', '0e0']:
    cfg = p.parse_args(['--s=' + s])
    assert cfg.s == s
    try:
        back = p.parse_string(p.dump(cfg))
        if back.s != s or type(back.s) is not str: bad.append((s, back.s))
    except Exception as ex:
        bad.append((s, repr(ex)))
print('bad:', bad); raise SystemExit(1 if bad else 0)

# C02: Union[None, Enum] must behave like Optional[Enum] (member order must not matter)
from enum import Enum
from typing import Union, Optional
from jsonargparse import ArgumentParser
class Color(Enum):
    red = 1
    blue = 2
bad = []
for t in (Optional[Color], Union[None, Color]):
    try:
        p = ArgumentParser(exit_on_error=False); p.add_argument('--c', type=t)
        if p.parse_args(['--c=blue']).c is not Color.blue or p.parse_args(['--c=null']).c is not None: bad.append((str(t), 'wrong value'))
    except Exception as ex: bad.append((str(t), repr(ex)))
print('bad:', bad); raise SystemExit(1 if bad else 0)

# C03: scalars that resolve as int/float but cannot be constructed must give ArgumentError, not ValueError
from jsonargparse import ArgumentParser, ArgumentError
p = ArgumentParser(exit_on_error=False); p.add_argument('--s', type=str)
bad = []
for text in ['s: ._', 's: 0x_', 's: 0b_']:
    try:
        p.parse_string(text)
    except ArgumentError: pass
    except Exception as ex: bad.append((text, repr(ex)))
print('bad:', bad); raise SystemExit(1 if bad else 0)

# C18: save of an invalid configuration must leave an existing file untouched
import os, tempfile
from jsonargparse import ArgumentParser, Namespace
p = ArgumentParser(exit_on_error=False); p.add_argument('--a', type=int, default=1)
d = tempfile.mkdtemp(); path = os.path.join(d, 'c.yaml')
open(path, 'w').write('a: 5\n')
try: p.save(Namespace(a='not-int'), path, multifile=False, overwrite=True)
except Exception as ex: print('save raised', type(ex).__name__)
content = open(path).read(); print(repr(content))
import shutil; shutil.rmtree(d)
raise SystemExit(0 if content == 'a: 5\n' else 1)

"""The settings of a subcommand that is NOT the selected one must be checked to be a mapping too (adfb1a7 checks the selected one): 'fit: 3' in a config while running 'test' must be a parse error, not AttributeError."""
import contextlib
import io
import sys

from jsonargparse import ArgumentError, ArgumentParser

bad = []


def check(what, call, exit_on_error, want=None):
    """the call must return (a value equal to `want`, when given) or fail through the documented channel:
    ArgumentError when exit_on_error is false, usage + error line on stderr and exit status 2 otherwise"""
    err = io.StringIO()
    try:
        with contextlib.redirect_stderr(err), contextlib.redirect_stdout(io.StringIO()):
            got = call()
    except ArgumentError as ex:
        if exit_on_error:
            bad.append("%s: ArgumentError raised although exit_on_error=True: %s" % (what, str(ex).split("\n")[-1][:100]))
        elif want is not None:
            bad.append("%s: rejected, expected %r: %s" % (what, want, str(ex).split("\n")[-1][:100]))
    except SystemExit as ex:
        ok = exit_on_error and ex.code == 2 and "usage:" in err.getvalue() and "error:" in err.getvalue()
        if not ok:
            bad.append("%s: SystemExit(%r) with exit_on_error=%s" % (what, ex.code, exit_on_error))
        elif want is not None:
            bad.append("%s: rejected, expected %r" % (what, want))
    except Exception as ex:
        bad.append("%s: %s escaped instead of the documented error channel: %s" % (what, type(ex).__name__, str(ex)[:100]))
    else:
        if want is not None and got != want:
            bad.append("%s: returned %r, expected %r" % (what, got, want))


def finish():
    if bad:
        print("FAIL:\n  " + "\n  ".join(bad))
        sys.exit(1)
    print("OK")
    sys.exit(0)


def make(eoe, required=True):
    p = ArgumentParser(exit_on_error=eoe)
    p.add_argument("--cfg", action="config")
    sub = p.add_subcommands(required=required)
    for name in ("fit", "test"):
        sp = ArgumentParser()
        sp.add_argument("--a", type=int, default=1)
        sub.add_subcommand(name, sp)
    return p


for eoe in (False, True):
    check("parse_args(['--cfg', 'fit: 3', 'test']) exit_on_error=%s" % eoe, lambda: make(eoe).parse_args(["--cfg", "fit: 3", "test"]), eoe)
    check("parse_object({'subcommand': 'test', 'fit': [1]}) exit_on_error=%s" % eoe, lambda: make(eoe).parse_object({"subcommand": "test", "fit": [1]}), eoe)
    check("parse_string('fit: x') without a required subcommand exit_on_error=%s" % eoe, lambda: make(eoe, required=False).parse_string("fit: x"), eoe)
    check("parse_args(['--cfg', 'fit: {a: 3}', 'test']).test.a exit_on_error=%s" % eoe,
          lambda: make(eoe).parse_args(["--cfg", "fit: {a: 3}", "test"]).test.a, eoe, want=1)
    check("parse_args(['--cfg', 'fit: {a: 3}', 'fit']).fit.a exit_on_error=%s" % eoe,
          lambda: make(eoe).parse_args(["--cfg", "fit: {a: 3}", "fit"]).fit.a, eoe, want=3)
finish()

# C18: multi-file save (the default mode) whose main dump fails must leave an existing target untouched
import os, tempfile, shutil
from typing import Any
from jsonargparse import ArgumentParser, Namespace
p = ArgumentParser(exit_on_error=False); p.add_argument('--any', type=Any)
d = tempfile.mkdtemp(); path = os.path.join(d, 'c.yaml')
open(path, 'w').write('precious\n')
try: p.save(Namespace(any=object()), path, overwrite=True)
except Exception as ex: print('save raised', type(ex).__name__)
content = open(path).read(); print(repr(content)); shutil.rmtree(d)
raise SystemExit(0 if content == 'precious\n' else 1)

"""An unknown subcommand name coming from a --cfg document or a default config file must be a parse error like it is for parse_object/parse_string (96e4fb9), not AttributeError on None."""
import contextlib
import io
import sys

from jsonargparse import ArgumentError, ArgumentParser

bad = []


def check(what, call, exit_on_error, want=None):
    """the call must return (a value equal to `want`, when given) or fail through the documented channel:
    ArgumentError when exit_on_error is false, usage + error line on stderr and exit status 2 otherwise"""
    err = io.StringIO()
    try:
        with contextlib.redirect_stderr(err), contextlib.redirect_stdout(io.StringIO()):
            got = call()
    except ArgumentError as ex:
        if exit_on_error:
            bad.append("%s: ArgumentError raised although exit_on_error=True: %s" % (what, str(ex).split("\n")[-1][:100]))
        elif want is not None:
            bad.append("%s: rejected, expected %r: %s" % (what, want, str(ex).split("\n")[-1][:100]))
    except SystemExit as ex:
        ok = exit_on_error and ex.code == 2 and "usage:" in err.getvalue() and "error:" in err.getvalue()
        if not ok:
            bad.append("%s: SystemExit(%r) with exit_on_error=%s" % (what, ex.code, exit_on_error))
        elif want is not None:
            bad.append("%s: rejected, expected %r" % (what, want))
    except Exception as ex:
        bad.append("%s: %s escaped instead of the documented error channel: %s" % (what, type(ex).__name__, str(ex)[:100]))
    else:
        if want is not None and got != want:
            bad.append("%s: returned %r, expected %r" % (what, got, want))


def finish():
    if bad:
        print("FAIL:\n  " + "\n  ".join(bad))
        sys.exit(1)
    print("OK")
    sys.exit(0)


import os
import tempfile

tmp = tempfile.mkdtemp()
default_cfg = os.path.join(tmp, "defaults.yaml")
with open(default_cfg, "w") as f:
    f.write("subcommand: fti\n")  # a typo of 'fit'


def make(eoe, **kw):
    p = ArgumentParser(exit_on_error=eoe, **kw)
    p.add_argument("--cfg", action="config")
    sub = p.add_subcommands()
    for name in ("fit", "test"):
        sp = ArgumentParser()
        sp.add_argument("--a", type=int, default=1)
        sub.add_subcommand(name, sp)
    return p


for eoe in (False, True):
    check("parse_args(['--cfg', 'subcommand: fti']) exit_on_error=%s" % eoe, lambda: make(eoe).parse_args(["--cfg", "subcommand: fti"]), eoe)
    check("parse_args(['--cfg', 'subcommand: fti', 'fit']) exit_on_error=%s" % eoe, lambda: make(eoe).parse_args(["--cfg", "subcommand: fti", "fit"]), eoe)
    check("parse_args(['--cfg', 'subcommand: test']).subcommand exit_on_error=%s" % eoe,
          lambda: make(eoe).parse_args(["--cfg", "subcommand: test"]).subcommand, eoe, want="test")
    check("parse_args(['fit', '--a=2']).fit.a exit_on_error=%s" % eoe, lambda: make(eoe).parse_args(["fit", "--a=2"]).fit.a, eoe, want=2)
# a default config file: get_defaults reports its own problems as ArgumentError in both modes (a separate matter)
try:
    make(False, default_config_files=[default_cfg]).parse_args(["fit"])
except ArgumentError:
    pass
except Exception as ex:
    bad.append("default config file with 'subcommand: fti': %s escaped: %s" % (type(ex).__name__, str(ex)[:100]))
finish()

# C03: parse_path on a missing file / a directory must fail through ArgumentError (exit 2 with exit_on_error)
import tempfile, os, io, contextlib
from jsonargparse import ArgumentParser, ArgumentError
p = ArgumentParser(exit_on_error=False); p.add_argument('--a', type=int)
bad = []
for path in ['/nonexistent-dir/x.yaml', tempfile.gettempdir()]:
    try: p.parse_path(path)
    except ArgumentError: pass
    except Exception as ex: bad.append((path, repr(ex)))
p2 = ArgumentParser(); p2.add_argument('--a', type=int)
with contextlib.redirect_stderr(io.StringIO()):
    try: p2.parse_path('/nonexistent-dir/x.yaml')
    except SystemExit as ex:
        if ex.code != 2: bad.append(('exit', ex.code))
    except Exception as ex: bad.append(('exit_on_error', repr(ex)))
print('bad:', bad); raise SystemExit(1 if bad else 0)

# C03: '--cfg=--' must fail through ArgumentError
from jsonargparse import ArgumentParser, ArgumentError, ActionConfigFile
p = ArgumentParser(exit_on_error=False); p.add_argument('--cfg', action=ActionConfigFile); p.add_argument('--a', type=int)
try:
    p.parse_args(['--cfg=--']); print('accepted'); raise SystemExit(0)
except ArgumentError: print('ArgumentError'); raise SystemExit(0)
except Exception as ex: print('escaped', repr(ex)); raise SystemExit(1)

"""A TypedDict field must not receive the raw text of the whole option as its "original string": the same setting
must be accepted or rejected by every input channel (argv / env vs config / object)."""
import sys
from typing import Optional

try:
    from typing import TypedDict
except ImportError:  # pragma: no cover
    print("OK (no TypedDict)"); sys.exit(0)

from jsonargparse import ArgumentParser


class T(TypedDict):
    a: Optional[str]
    n: int


def mk():
    p = ArgumentParser(exit_on_error=False, default_env=False, env_prefix="APP")
    p.add_argument("--t", type=T)
    return p


text = '{"a": 2.5, "n": 1}'
res = {}
for name, call in (
    ("argv", lambda: mk().parse_args(["--t=" + text])),
    ("env", lambda: mk().parse_env({"APP_T": text})),
    ("string", lambda: mk().parse_string("t: " + text)),
    ("object", lambda: mk().parse_object({"t": {"a": 2.5, "n": 1}})),
):
    try:
        res[name] = ("accepted", dict(call().t))
    except Exception as ex:  # noqa: BLE001
        res[name] = ("rejected", type(ex).__name__)
verdicts = {v[0] for v in res.values()}
ok = len(verdicts) == 1
good = mk().parse_args(['--t={"a": "x", "n": 1}']).t
if dict(good) != {"a": "x", "n": 1}:
    ok = False
    res["valid"] = good
if not ok:
    print("FAIL: channels disagree on %s: %r" % (text, res)); sys.exit(1)
print("OK"); sys.exit(0)

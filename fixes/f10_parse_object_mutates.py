# C08: parse_object must not modify the object it is given
import copy
from typing import List, Dict
from jsonargparse import ArgumentParser, Namespace
p = ArgumentParser(exit_on_error=False); p.add_argument('--a', type=int); p.add_argument('--d', type=Dict[str, List[int]])
bad = []
ns = Namespace(a='1'); before = ns.clone(); p.parse_object(ns)
if ns != before or type(ns.a) is not str: bad.append(('namespace', ns))
d = {'d': {'k': ['1', '2']}}; before = copy.deepcopy(d); p.parse_object(d)
if d != before: bad.append(('dict', d))
print('bad:', bad); raise SystemExit(1 if bad else 0)

# C15: a link whose target is one of its own sources must be rejected when it is added
from jsonargparse import ArgumentParser
p = ArgumentParser(exit_on_error=False); p.add_argument('--a', type=int, default=1); p.add_argument('--b', type=int, default=2)
try:
    p.link_arguments(('a', 'b'), 'a', lambda a, b: a + b); print('accepted'); raise SystemExit(1)
except ValueError as ex:
    print('rejected:', ex); raise SystemExit(0)

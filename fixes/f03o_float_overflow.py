# C03: an integer too large for a float must fail through ArgumentError, not OverflowError
from jsonargparse import ArgumentParser, ArgumentError
p = ArgumentParser(exit_on_error=False); p.add_argument('--f', type=float)
bad = []
for f in (lambda: p.parse_args(['--f=' + '9' * 400]), lambda: p.parse_object({'f': 10 ** 400})):
    try: f(); bad.append('accepted')
    except ArgumentError: pass
    except Exception as ex: bad.append(repr(ex))
print('bad:', bad); raise SystemExit(1 if bad else 0)

# C03: a null subcommand section must not escape as AttributeError
from jsonargparse import ArgumentParser, ArgumentError
p = ArgumentParser(exit_on_error=False); sub = p.add_subcommands()
s1 = ArgumentParser(exit_on_error=False); s1.add_argument('--x', type=int, default=1); sub.add_subcommand('s1', s1)
bad = []
for f in (lambda: p.parse_object({'subcommand': 's1', 's1': None}), lambda: p.parse_string('{"subcommand": "s1", "s1": null}')):
    try: f()
    except ArgumentError: pass
    except Exception as ex: bad.append(repr(ex))
print('bad:', bad); raise SystemExit(1 if bad else 0)

"""A help request that fails must not leave the default-config value written into action.default (later answers of the
same parser would depend on the failed call)."""
import os
import sys
import tempfile
from typing import Optional

from jsonargparse import ArgumentParser


class Base:
    def __init__(self, w: int = 1):
        pass


class Other(Base):
    pass


tmp = tempfile.mkdtemp()
f = os.path.join(tmp, "dflt.yaml")
with open(f, "w") as fh:
    fh.write("m: __main__.Other\n")


def build():
    p = ArgumentParser(exit_on_error=False, default_config_files=[f])
    p.add_argument("--m", type=Optional[Base], default=None)
    return p


Dyn = type("Dyn", (Base,), {"__module__": None})  # a live subclass whose import path cannot be determined
reused = build()
try:
    reused.format_help()
    failed = False
except Exception:
    failed = True
with open(f, "w") as fh:
    fh.write("")  # the default config file no longer sets m
got = reused.get_defaults().m
want = build().get_defaults().m
del Dyn
if got != want:
    print("FAIL: after a %s format_help() the reused parser answers m=%r, a fresh parser m=%r" % ("failed" if failed else "successful", got, want))
    sys.exit(1)
print("OK")
sys.exit(0)

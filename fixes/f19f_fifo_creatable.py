# C19: an existing FIFO is "a file" for mode f, so it must also pass fc (adding "creatable" cannot reject an existing file)
import os, tempfile, shutil
from jsonargparse import Path
d = tempfile.mkdtemp(); fifo = os.path.join(d, 'fifo'); os.mkfifo(fifo)
try:
    Path(fifo, 'f')
    try: Path(fifo, 'fc'); ok = True
    except TypeError as ex: print('fc rejected:', ex); ok = False
finally:
    shutil.rmtree(d)
raise SystemExit(0 if ok else 1)

# C02/C05: a container is accepted exactly when each element is accepted; argv and object channel agree
from typing import Union, List, Dict, Optional
from jsonargparse import ArgumentParser, ArgumentError
def run(t, arg, obj):
    p = ArgumentParser(exit_on_error=False); p.add_argument('--v', type=t)
    try: a = ('ok', p.parse_args(['--v=' + arg]).v)
    except ArgumentError: a = ('rej',)
    try: b = ('ok', p.parse_object({'v': obj}).v)
    except ArgumentError: b = ('rej',)
    return a, b
bad = []
for t, arg, obj in [(List[Union[int, str]], '[1.5]', [1.5]), (Dict[str, Union[int, str]], '{"a": 1.5}', {'a': 1.5}), (List[Optional[str]], '[1, null]', [1, None])]:
    a, b = run(t, arg, obj)
    if a != b: bad.append((str(t), arg, a, b))
print('bad:', bad); raise SystemExit(1 if bad else 0)

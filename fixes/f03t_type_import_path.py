# C03: a Type[...] argument given a non-importable path must fail through ArgumentError
from typing import Type
from calendar import Calendar
from jsonargparse import ArgumentParser, ArgumentError
p = ArgumentParser(exit_on_error=False); p.add_argument('--ty', type=Type[Calendar])
bad = []
for v in ['no.such', 'calendar.NoSuchClass', 'nomodule_xyz.Thing']:
    try: p.parse_args(['--ty=' + v]); bad.append((v, 'accepted'))
    except ArgumentError: pass
    except Exception as ex: bad.append((v, repr(ex)))
print('bad:', bad); raise SystemExit(1 if bad else 0)

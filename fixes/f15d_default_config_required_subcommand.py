# C17/C04: an existing default config file that does not name the subcommand must not break a required subcommand
import os, tempfile, shutil
from jsonargparse import ArgumentParser, ArgumentError
d = tempfile.mkdtemp(); f = os.path.join(d, 'defaults.yaml'); open(f, 'w').write('g: 3\n')
p = ArgumentParser(exit_on_error=False, default_config_files=[f]); p.add_argument('--g', type=int, default=1)
sub = p.add_subcommands(); s1 = ArgumentParser(exit_on_error=False); s1.add_argument('--x', type=int, default=1); sub.add_subcommand('s1', s1)
try:
    cfg = p.parse_args(['s1', '--x=2']); ok = cfg.g == 3 and cfg.s1.x == 2 and cfg.subcommand == 's1'
except ArgumentError as ex:
    print('ArgumentError', str(ex)[:200]); ok = False
shutil.rmtree(d); raise SystemExit(0 if ok else 1)

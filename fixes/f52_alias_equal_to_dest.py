"""An ALIAS equal to the subcommands dest must be rejected when the tree is built, like a NAME equal to it: the parse result
stores the chosen name under the dest key and the chosen subcommand's settings under that name (C17); both cannot live under
one key, so such a subcommand can never be selected."""
import sys

from jsonargparse import ArgumentParser

bad = []


def tree(**kw):
    root = ArgumentParser(exit_on_error=False, prog="app")
    sub = root.add_subcommands(dest="cmd")
    run = ArgumentParser(exit_on_error=False)
    run.add_argument("--n", type=int, default=1)
    sub.add_subcommand("run", run, **kw)
    return root


# the documented rejection for the name
try:
    root = ArgumentParser(exit_on_error=False)
    root.add_subcommands(dest="cmd").add_subcommand("cmd", ArgumentParser(exit_on_error=False))
    bad.append("a subcommand NAMED like the dest is accepted")
except ValueError:
    pass
# the same collision through an alias
try:
    root = tree(aliases=("cmd",))
except ValueError:
    root = None
if root is not None:
    try:
        cfg = root.parse_args(["cmd", "--n=2"])
        ok = cfg.cmd == "cmd" and getattr(cfg.get("cmd"), "n", None) == 2
        detail = "parse_args(['cmd', '--n=2']) -> %r" % (cfg,)
    except Exception as ex:
        ok, detail = False, "parse_args(['cmd', '--n=2']) fails: %s" % str(ex).split("\n")[-1][:150]
    if not ok:
        bad.append("add_subcommand('run', parser, aliases=('cmd',)) with dest='cmd' is accepted, but the alias can never be selected: " + detail)
# aliases that do not collide keep working
try:
    cfg = tree(aliases=("r", "go")).parse_args(["go", "--n=3"])
    if cfg.cmd != "go" or cfg.go.n != 3:
        bad.append("alias 'go': %r" % (cfg,))
except Exception as ex:
    bad.append("alias 'go' rejected: %s" % ex)
if bad:
    print("FAIL:\n  " + "\n  ".join(bad)); sys.exit(1)
print("OK"); sys.exit(0)

"""Naming the subcommand through its environment variable must only SELECT it: the settings that a default config file
gives for that subcommand are part of its complete settings (C17), exactly as when the command line names it."""
import json
import os
import sys
import tempfile

from jsonargparse import ArgumentParser

bad = []
tmp = tempfile.mkdtemp()
dcf = os.path.join(tmp, "app.json")
with open(dcf, "w") as f:
    json.dump({"fit": {"lr": 5, "opt": {"momentum": 9}}}, f)


def build():
    root = ArgumentParser(exit_on_error=False, prog="app", default_env=True, default_config_files=[dcf])
    root.add_argument("--verbose", type=int, default=0)
    sub = root.add_subcommands(required=True)
    fit = ArgumentParser(exit_on_error=False)
    fit.add_argument("--lr", type=int, default=1)
    fit.add_argument("--epochs", type=int, default=10)
    fit.add_argument("--opt.momentum", type=int, default=0)
    test = ArgumentParser(exit_on_error=False)
    test.add_argument("--ckpt", type=int, default=0)
    sub.add_subcommand("fit", fit)
    sub.add_subcommand("test", test)
    return root


def run(argv, env):
    for k in list(os.environ):
        if k.startswith("APP_"):
            del os.environ[k]
    os.environ.update(env)
    try:
        cfg = build().parse_args(argv)
        return {"subcommand": cfg.subcommand, "lr": cfg.fit.lr, "epochs": cfg.fit.epochs, "momentum": cfg.fit.opt.momentum}
    except Exception as ex:
        return "%s: %s" % (type(ex).__name__, str(ex).split("\n")[-1][:160])
    finally:
        for k in env:
            os.environ.pop(k, None)


want = {"subcommand": "fit", "lr": 5, "epochs": 10, "momentum": 9}
by_argv = run(["fit"], {})
if by_argv != want:
    bad.append("subcommand named on the command line: %r, expected %r" % (by_argv, want))
by_env = run([], {"APP_SUBCOMMAND": "fit"})
if by_env != want:
    bad.append("APP_SUBCOMMAND=fit: %r, expected %r (the default config file's fit.lr / fit.opt.momentum are reset to the option defaults)" % (by_env, want))
# the environment still beats the default config file, a given value beats both
got = run([], {"APP_SUBCOMMAND": "fit", "APP_FIT__LR": "7"})
if got != dict(want, lr=7):
    bad.append("APP_SUBCOMMAND=fit APP_FIT__LR=7: %r, expected lr=7" % (got,))
got = run(["fit", "--lr=8"], {"APP_SUBCOMMAND": "test", "APP_FIT__LR": "7"})
if got != dict(want, lr=8):
    bad.append("argv 'fit --lr=8' with APP_SUBCOMMAND=test: %r, expected fit with lr=8" % (got,))
if bad:
    print("FAIL:\n  " + "\n  ".join(bad)); sys.exit(1)
print("OK"); sys.exit(0)

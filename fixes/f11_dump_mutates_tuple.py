# C08: dump/validate must not modify the configuration they are given
from typing import Tuple, List
from jsonargparse import ArgumentParser
p = ArgumentParser(exit_on_error=False); p.add_argument('--t', type=Tuple[int, List[Tuple[int, int]]])
cfg = p.parse_args(['--t=[1, [[2, 3]]]'])
snap = repr(cfg)
p.dump(cfg)
ok = repr(cfg) == snap
print(snap, '->', repr(cfg)); raise SystemExit(0 if ok else 1)

"""Registered types whose conversion fails with an ArithmeticError (decimal.InvalidOperation, OverflowError): Decimal given a non-number, timedelta beyond its range, complex given a huge integer must be parse errors."""
import contextlib
import io
import sys

from jsonargparse import ArgumentError, ArgumentParser

bad = []


def check(what, call, exit_on_error, want=None):
    """the call must return (a value equal to `want`, when given) or fail through the documented channel:
    ArgumentError when exit_on_error is false, usage + error line on stderr and exit status 2 otherwise"""
    err = io.StringIO()
    try:
        with contextlib.redirect_stderr(err), contextlib.redirect_stdout(io.StringIO()):
            got = call()
    except ArgumentError as ex:
        if exit_on_error:
            bad.append("%s: ArgumentError raised although exit_on_error=True: %s" % (what, str(ex).split("\n")[-1][:100]))
        elif want is not None:
            bad.append("%s: rejected, expected %r: %s" % (what, want, str(ex).split("\n")[-1][:100]))
    except SystemExit as ex:
        ok = exit_on_error and ex.code == 2 and "usage:" in err.getvalue() and "error:" in err.getvalue()
        if not ok:
            bad.append("%s: SystemExit(%r) with exit_on_error=%s" % (what, ex.code, exit_on_error))
        elif want is not None:
            bad.append("%s: rejected, expected %r" % (what, want))
    except Exception as ex:
        bad.append("%s: %s escaped instead of the documented error channel: %s" % (what, type(ex).__name__, str(ex)[:100]))
    else:
        if want is not None and got != want:
            bad.append("%s: returned %r, expected %r" % (what, got, want))


def finish():
    if bad:
        print("FAIL:\n  " + "\n  ".join(bad))
        sys.exit(1)
    print("OK")
    sys.exit(0)


import datetime
import decimal
from typing import List

for eoe in (False, True):
    p = ArgumentParser(exit_on_error=eoe)
    p.add_argument("--price", type=decimal.Decimal)
    p.add_argument("--prices", type=List[decimal.Decimal])
    p.add_argument("--timeout", type=datetime.timedelta)
    p.add_argument("--z", type=complex)
    check("parse_args(['--price=abc']) exit_on_error=%s" % eoe, lambda: p.parse_args(["--price=abc"]), eoe)
    check("parse_args(['--price=']) exit_on_error=%s" % eoe, lambda: p.parse_args(["--price="]), eoe)
    check("parse_string('prices: [1.5, 2,50]') exit_on_error=%s" % eoe, lambda: p.parse_string("prices: [1.5, '2,50']"), eoe)
    check("parse_args(['--timeout=9999999999 days, 0:00:00']) exit_on_error=%s" % eoe, lambda: p.parse_args(["--timeout=9999999999 days, 0:00:00"]), eoe)
    check("parse_args(['--timeout=<400 digits>:00:00']) exit_on_error=%s" % eoe, lambda: p.parse_args(["--timeout=%s:00:00" % ("9" * 400)]), eoe)
    check("parse_object({'z': 10**400}) exit_on_error=%s" % eoe, lambda: p.parse_object({"z": 10**400}), eoe)
    check("parse_args(['--price=2.50']).price exit_on_error=%s" % eoe, lambda: p.parse_args(["--price=2.50"]).price, eoe, want=decimal.Decimal("2.50"))
    check("parse_args(['--timeout=1:30:00']).timeout exit_on_error=%s" % eoe, lambda: p.parse_args(["--timeout=1:30:00"]).timeout, eoe,
          want=datetime.timedelta(hours=1, minutes=30))
    check("parse_args(['--z=1+2j']).z exit_on_error=%s" % eoe, lambda: p.parse_args(["--z=1+2j"]).z, eoe, want=1 + 2j)
finish()

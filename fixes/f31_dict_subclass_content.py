"""clone / strip_meta / dump keep the content of a dict-subclass value (recreate_branches iterated the instance __dict__)."""
import sys
from collections import defaultdict
from typing import Any

from jsonargparse import ArgumentParser, Namespace
from jsonargparse._namespace import recreate_branches, strip_meta


class MyDict(dict):
    pass


bad = []
src = MyDict(a=1, b=MyDict(c=2))
cp = recreate_branches(src)
if cp != {"a": 1, "b": {"c": 2}}:
    bad.append("recreate_branches(MyDict(a=1, b=MyDict(c=2))) -> %r" % (cp,))
ns = Namespace(v=MyDict(a=1))
if ns.clone().v != {"a": 1}:
    bad.append("Namespace(v=MyDict(a=1)).clone().v -> %r" % (ns.clone().v,))
if strip_meta(ns).v != {"a": 1}:
    bad.append("strip_meta(...).v -> %r" % (strip_meta(ns).v,))
p = ArgumentParser(exit_on_error=False)
p.add_argument("--v", type=Any)
cfg = p.parse_object({"v": MyDict(a=1)})
if dict(cfg.v) != {"a": 1}:
    bad.append("parse_object({'v': MyDict(a=1)}).v -> %r (content lost)" % (cfg.v,))
dd = defaultdict(list, k=[1])
if dict(Namespace(v=dd).clone().v) != {"k": [1]}:
    bad.append("clone of a defaultdict value lost its content")
if src != {"a": 1, "b": {"c": 2}} or ns.v != {"a": 1}:
    bad.append("source modified")
if bad:
    print("FAIL:\n  " + "\n  ".join(bad)); sys.exit(1)
print("OK"); sys.exit(0)

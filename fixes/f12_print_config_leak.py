# C09: a failed parse carrying --print_config must not affect the next parse
import io, contextlib
from jsonargparse import ArgumentParser, ArgumentError, ActionConfigFile
p = ArgumentParser(exit_on_error=False); p.add_argument('--cfg', action=ActionConfigFile); p.add_argument('--a', type=int, default=1)
try: p.parse_args(['--print_config', '--a=x'])
except ArgumentError: pass
out = io.StringIO()
try:
    with contextlib.redirect_stdout(out): cfg = p.parse_args(['--a=2'])
    print('ok', cfg.a); raise SystemExit(0)
except SystemExit as ex:
    if ex.code == 0 and out.getvalue(): print('printed config and exited:', out.getvalue()); raise SystemExit(1)
    raise

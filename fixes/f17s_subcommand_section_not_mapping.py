# C03: a scalar or list where a subcommand's settings are expected must be a parse error (was: AttributeError 'clone')
import warnings
warnings.simplefilter("ignore")
from jsonargparse import ArgumentParser, ArgumentError
def mk():
    p = ArgumentParser(exit_on_error=False)
    p.add_argument("--cfg", action="config")
    sc = p.add_subcommands(dest="cmd")
    a = ArgumentParser(exit_on_error=False); a.add_argument("--x", type=int, default=1)
    sc.add_subcommand("fit", a)
    return p
bad = 0
for label, call in (("scalar section (string)", lambda p: p.parse_string("cmd: fit\nfit: 3\n")),
                    ("list section (object)", lambda p: p.parse_object({"cmd": "fit", "fit": [1]})),
                    ("scalar section (--cfg, then the subcommand on argv)", lambda p: p.parse_args(["--cfg", "fit: 3", "fit"]))):
    try:
        r = call(mk()); print("accepted:", label, r); bad += 1
    except ArgumentError as ex:
        print("rejected:", label, str(ex)[:90])
    except Exception as ex:  # noqa: BLE001
        print("wrong exception:", label, type(ex).__name__, ex); bad += 1
assert mk().parse_args(["--cfg", "fit: {x: 5}", "fit"]).fit.x == 5
assert mk().parse_string("cmd: fit\nfit: null\n").fit.x == 1
raise SystemExit(1 if bad else 0)

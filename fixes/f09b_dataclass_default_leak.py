# C09: a parse must not leave the previous dataclass value behind as the default of later parses
from dataclasses import dataclass
from typing import Optional
from jsonargparse import ArgumentParser

@dataclass
class Data:
    x: int = 1
    y: str = 'q'

class Trainer:
    def __init__(self, opt: Optional[Data] = None):
        self.opt = opt

def build():
    p = ArgumentParser(exit_on_error=False); p.add_class_arguments(Trainer, 'trainer'); return p

p = build()
p.parse_args(['--trainer.opt.x=3'])
reused = p.parse_args(['--trainer.opt.y=k']).trainer.opt
fresh = build().parse_args(['--trainer.opt.y=k']).trainer.opt
print('reused', reused, 'fresh', fresh)
raise SystemExit(0 if reused == fresh else 1)

# C02: Union acceptance must not depend on member order (an earlier failing member must not rewrite the value in place)
from typing import Union, List, Dict
from jsonargparse import ArgumentParser, ArgumentError
def acc(t, obj):
    p = ArgumentParser(exit_on_error=False); p.add_argument('--v', type=t)
    try: return ('ok', repr(p.parse_object({'v': obj}).v))
    except ArgumentError: return ('rej',)
bad = []
cases = [
  (Union[List[float], List[Union[int, str]]], Union[List[Union[int, str]], List[float]], lambda: [1, 'a']),
  (Union[Dict[str, float], Dict[str, Union[int, str]]], Union[Dict[str, Union[int, str]], Dict[str, float]], lambda: {'a': 1, 'b': 'x'}),
]
for a, b, mk in cases:
    ra, rb = acc(a, mk()), acc(b, mk())
    if ra != rb: bad.append((str(a), ra, rb))
print('bad:', bad); raise SystemExit(1 if bad else 0)

"""parse_path / --cfg FILE: a config file that cannot be read (not UTF-8, a NUL byte in the name, stdin closed for '-') must be reported through error()."""
import contextlib
import io
import sys

from jsonargparse import ArgumentError, ArgumentParser

bad = []


def check(what, call, exit_on_error, want=None):
    """the call must return (a value equal to `want`, when given) or fail through the documented channel:
    ArgumentError when exit_on_error is false, usage + error line on stderr and exit status 2 otherwise"""
    err = io.StringIO()
    try:
        with contextlib.redirect_stderr(err), contextlib.redirect_stdout(io.StringIO()):
            got = call()
    except ArgumentError as ex:
        if exit_on_error:
            bad.append("%s: ArgumentError raised although exit_on_error=True: %s" % (what, str(ex).split("\n")[-1][:100]))
        elif want is not None:
            bad.append("%s: rejected, expected %r: %s" % (what, want, str(ex).split("\n")[-1][:100]))
    except SystemExit as ex:
        ok = exit_on_error and ex.code == 2 and "usage:" in err.getvalue() and "error:" in err.getvalue()
        if not ok:
            bad.append("%s: SystemExit(%r) with exit_on_error=%s" % (what, ex.code, exit_on_error))
        elif want is not None:
            bad.append("%s: rejected, expected %r" % (what, want))
    except Exception as ex:
        bad.append("%s: %s escaped instead of the documented error channel: %s" % (what, type(ex).__name__, str(ex)[:100]))
    else:
        if want is not None and got != want:
            bad.append("%s: returned %r, expected %r" % (what, got, want))


def finish():
    if bad:
        print("FAIL:\n  " + "\n  ".join(bad))
        sys.exit(1)
    print("OK")
    sys.exit(0)


import os
import tempfile

tmp = tempfile.mkdtemp()
latin1 = os.path.join(tmp, "latin1.yaml")
with open(latin1, "wb") as f:
    f.write("name: caf\xe9\n".encode("latin-1"))  # saved by an editor that does not write UTF-8
good = os.path.join(tmp, "good.yaml")
with open(good, "w") as f:
    f.write("name: ok\n")
for eoe in (False, True):
    p = ArgumentParser(exit_on_error=eoe)
    p.add_argument("--cfg", action="config")
    p.add_argument("--name", type=str)
    check("parse_path(<latin-1 file>) exit_on_error=%s" % eoe, lambda: p.parse_path(latin1), eoe)
    check("parse_args(['--cfg', <latin-1 file>]) exit_on_error=%s" % eoe, lambda: p.parse_args(["--cfg", latin1]), eoe)
    check("parse_path('conf\\0.yaml') exit_on_error=%s" % eoe, lambda: p.parse_path("conf\0.yaml"), eoe)
    check("parse_path(<good file>).name exit_on_error=%s" % eoe, lambda: p.parse_path(good).name, eoe, want="ok")
    check("parse_path(<missing file>) exit_on_error=%s" % eoe, lambda: p.parse_path(os.path.join(tmp, "missing.yaml")), eoe)
closed = io.StringIO("")
closed.close()
old_stdin, sys.stdin = sys.stdin, closed
try:
    p = ArgumentParser(exit_on_error=False)
    p.add_argument("--name", type=str)
    check("parse_path('-') with stdin closed", lambda: p.parse_path("-"), False)
finally:
    sys.stdin = old_stdin
finish()

"""A restricted float type (PositiveFloat, ClosedUnitInterval, ...) given an integer beyond the float range (a config value, parse_object): float(v) raises OverflowError; it must be a parse error like for a plain float (31f099f)."""
import contextlib
import io
import sys

from jsonargparse import ArgumentError, ArgumentParser

bad = []


def check(what, call, exit_on_error, want=None):
    """the call must return (a value equal to `want`, when given) or fail through the documented channel:
    ArgumentError when exit_on_error is false, usage + error line on stderr and exit status 2 otherwise"""
    err = io.StringIO()
    try:
        with contextlib.redirect_stderr(err), contextlib.redirect_stdout(io.StringIO()):
            got = call()
    except ArgumentError as ex:
        if exit_on_error:
            bad.append("%s: ArgumentError raised although exit_on_error=True: %s" % (what, str(ex).split("\n")[-1][:100]))
        elif want is not None:
            bad.append("%s: rejected, expected %r: %s" % (what, want, str(ex).split("\n")[-1][:100]))
    except SystemExit as ex:
        ok = exit_on_error and ex.code == 2 and "usage:" in err.getvalue() and "error:" in err.getvalue()
        if not ok:
            bad.append("%s: SystemExit(%r) with exit_on_error=%s" % (what, ex.code, exit_on_error))
        elif want is not None:
            bad.append("%s: rejected, expected %r" % (what, want))
    except Exception as ex:
        bad.append("%s: %s escaped instead of the documented error channel: %s" % (what, type(ex).__name__, str(ex)[:100]))
    else:
        if want is not None and got != want:
            bad.append("%s: returned %r, expected %r" % (what, got, want))


def finish():
    if bad:
        print("FAIL:\n  " + "\n  ".join(bad))
        sys.exit(1)
    print("OK")
    sys.exit(0)


from typing import List

from jsonargparse.typing import ClosedUnitInterval, PositiveFloat, PositiveInt

big = 10**400
for eoe in (False, True):
    p = ArgumentParser(exit_on_error=eoe)
    p.add_argument("--lr", type=PositiveFloat)
    p.add_argument("--drop", type=List[ClosedUnitInterval])
    p.add_argument("--n", type=PositiveInt)
    check("parse_object({'lr': 10**400}) exit_on_error=%s" % eoe, lambda: p.parse_object({"lr": big}), eoe)
    check("parse_string('lr: 1<400 zeros>') exit_on_error=%s" % eoe, lambda: p.parse_string("lr: %d" % big), eoe)
    check("parse_string('drop: [0.5, 1<400 zeros>]') exit_on_error=%s" % eoe, lambda: p.parse_string("drop: [0.5, %d]" % big), eoe)
    check("parse_object({'lr': 3}).lr exit_on_error=%s" % eoe, lambda: p.parse_object({"lr": 3}).lr, eoe, want=3.0)
    check("parse_object({'n': 10**400}).n exit_on_error=%s" % eoe, lambda: p.parse_object({"n": big}).n, eoe, want=big)
    check("parse_object({'n': inf}) exit_on_error=%s" % eoe, lambda: p.parse_object({"n": float("inf")}), eoe)
try:
    PositiveFloat(big)
    bad.append("PositiveFloat(10**400) accepted")
except ValueError:
    pass
except Exception as ex:
    bad.append("PositiveFloat(10**400): %s instead of ValueError" % type(ex).__name__)
finish()

"""Relative paths inside a config file follow the directory the OS reaches for the file's spelling, also when the
spelling goes through a directory symlink and '..' (lexical normalisation names another directory)."""
import os
import sys
import tempfile

from jsonargparse import ArgumentParser
from jsonargparse._util import current_path_dir
from jsonargparse.typing import Path_fr

bad = []
base = os.path.realpath(tempfile.mkdtemp())
os.makedirs(os.path.join(base, "b", "y"))
os.makedirs(os.path.join(base, "w"))
os.symlink(os.path.join("b", "y"), os.path.join(base, "la"))  # la -> b/y ; la/.. is b, not base
with open(os.path.join(base, "b", "c1.yaml"), "w") as f:
    f.write("p: data.txt\n")
with open(os.path.join(base, "b", "data.txt"), "w") as f:
    f.write("right")
with open(os.path.join(base, "data.txt"), "w") as f:  # decoy in the lexically normalised directory
    f.write("decoy")
with open(os.path.join(base, "b", "y", "c2.yaml"), "w") as f:
    f.write("p: d2.txt\n")
with open(os.path.join(base, "b", "y", "d2.txt"), "w") as f:
    f.write("right2")
os.chdir(os.path.join(base, "w"))


def mk():
    p = ArgumentParser(exit_on_error=False)
    p.add_argument("--cfg", action="config")
    p.add_argument("--p", type=Path_fr)
    return p


before = os.getcwd()
try:
    cfg = mk().parse_args(["--cfg", "../la/../c1.yaml"])
    got = cfg.p.get_content()
    if got != "right":
        bad.append("relative path inside ../la/../c1.yaml resolved to the file containing %r (expected the sibling of the config, 'right')" % got)
except Exception as ex:
    bad.append("../la/../c1.yaml: %s: %s" % (type(ex).__name__, str(ex).replace("\n", " ")[:150]))
try:
    cfg = mk().parse_args(["--cfg", "../la/../y/c2.yaml"])
    got = cfg.p.get_content()
    if got != "right2":
        bad.append("relative path inside ../la/../y/c2.yaml resolved to %r" % got)
except Exception as ex:
    bad.append("../la/../y/c2.yaml (an existing, readable config): %s: %s" % (type(ex).__name__, str(ex).replace("\n", " ")[:150]))
if os.getcwd() != before:
    bad.append("cwd not restored: %s" % os.getcwd())
if current_path_dir.get() is not None:
    bad.append("current_path_dir left set: %r" % current_path_dir.get())
if bad:
    print("FAIL:\n  " + "\n  ".join(bad)); sys.exit(1)
print("OK"); sys.exit(0)

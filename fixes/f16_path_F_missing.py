# C19: flag F (not a file) on a missing path must not escape as FileNotFoundError
from jsonargparse import Path
try:
    Path('/nonexistent-dir-xyz/file', 'F'); print('accepted'); raise SystemExit(0)
except TypeError as ex: print('PathError', ex); raise SystemExit(0)
except OSError as ex: print('escaped', repr(ex)); raise SystemExit(1)

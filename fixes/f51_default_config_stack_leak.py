"""A default config file section written for one subcommand must not end up in the settings of a subcommand nested inside it
(C17: each selected subcommand holds ITS complete settings and nothing else).  With environment parsing on and three levels of
parsers the root's section `fit` used to be loaded a second time for the grandchild `fit.eval`."""
import json
import os
import sys
import tempfile

from jsonargparse import ArgumentParser

bad = []
tmp = tempfile.mkdtemp()
dcf = os.path.join(tmp, "app.json")
with open(dcf, "w") as f:
    json.dump({"fit": {"gamma": 792}}, f)


fit_dcf = os.path.join(tmp, "fit.json")
with open(fit_dcf, "w") as f:
    json.dump({"cmd": "eval"}, f)


def build(eval_has_gamma, default_env, fit_file=False):
    root = ArgumentParser(exit_on_error=False, prog="app", default_env=default_env, default_config_files=[dcf])
    sub = root.add_subcommands(required=True)
    fit = ArgumentParser(exit_on_error=False, default_config_files=[fit_dcf] if fit_file else [])
    fit.add_argument("--gamma", type=int, default=85)
    test = ArgumentParser(exit_on_error=False)
    sub.add_subcommand("fit", fit)
    sub.add_subcommand("test", test)
    inner = fit.add_subcommands(required=True, dest="cmd")
    ev = ArgumentParser(exit_on_error=False)
    ev.add_argument("--split", type=int, default=1)
    if eval_has_gamma:
        ev.add_argument("--gamma", type=int, default=3)
    inner.add_subcommand("eval", ev)
    return root


def run(eval_has_gamma, default_env, argv, env, fit_file=False):
    for k in list(os.environ):
        if k.startswith("APP_"):
            del os.environ[k]
    os.environ.update(env)
    try:
        cfg = build(eval_has_gamma, default_env, fit_file).parse_args(argv)
        return cfg.as_dict()
    except Exception as ex:
        return "%s: %s" % (type(ex).__name__, str(ex).split("\n")[-1][:160])
    finally:
        for k in env:
            os.environ.pop(k, None)


def strip(d):
    return {k: strip(v) for k, v in d.items() if not k.startswith("__")} if isinstance(d, dict) else d


want = {"subcommand": "fit", "fit": {"gamma": 792, "cmd": "eval", "eval": {"split": 1}}}
for label, argv, env in (("app fit, APP_FIT__CMD=eval", ["fit"], {"APP_FIT__CMD": "eval"}),
                         ("both named by the environment", [], {"APP_SUBCOMMAND": "fit", "APP_FIT__CMD": "eval"})):
    got = run(False, True, argv, env)
    if not isinstance(got, dict) or strip(got) != want:
        bad.append("%s: %r, expected %r" % (label, strip(got) if isinstance(got, dict) else got, want))
# the grandchild has an option of the same name: it silently received the value meant for `fit`
want2 = {"subcommand": "fit", "fit": {"gamma": 792, "cmd": "eval", "eval": {"split": 1, "gamma": 3}}}
got = run(True, True, [], {"APP_FIT__CMD": "eval"})
if not isinstance(got, dict) or strip(got) != want2:
    bad.append("eval has its own --gamma (default 3), fit selected by the default config file, APP_FIT__CMD=eval: %r, expected %r" % (strip(got) if isinstance(got, dict) else got, want2))
# no variable at all: the nested subcommand is named by the default config file of `fit` itself
got = run(False, True, ["fit"], {}, fit_file=True)
if not isinstance(got, dict) or strip(got) != want:
    bad.append("app fit, fit's own default config file says cmd: eval: %r, expected %r" % (strip(got) if isinstance(got, dict) else got, want))
# reference behaviour: the same tree without environment parsing
got = run(True, False, ["fit", "eval"], {})
if not isinstance(got, dict) or strip(got) != want2:
    bad.append("environment parsing off: %r, expected %r" % (strip(got) if isinstance(got, dict) else got, want2))
if bad:
    print("FAIL:\n  " + "\n  ".join(bad)); sys.exit(1)
print("OK"); sys.exit(0)

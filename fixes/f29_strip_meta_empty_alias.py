"""strip_meta returns a copy also for an empty configuration; instantiate_classes must not write into the caller's object."""
import sys
from jsonargparse import ArgumentParser, Namespace
from jsonargparse._namespace import strip_meta


class A:
    def __init__(self, x: int = 1):
        self.x = x


bad = []
e = Namespace()
if strip_meta(e) is e:
    bad.append("strip_meta(Namespace()) returned the given object itself, not a copy")
d = {}
if strip_meta(d) is d:
    bad.append("strip_meta({}) returned the given dict itself, not a copy")
p = ArgumentParser(exit_on_error=False)
p.add_class_arguments(A, "a")
cfg = Namespace()
try:
    init = p.instantiate_classes(cfg)
except Exception as ex:  # not the point of this demo
    init = None
if vars(cfg):
    bad.append("instantiate_classes(Namespace()) wrote into the caller's namespace: %r" % (cfg,))
if bad:
    print("FAIL:\n  " + "\n  ".join(bad)); sys.exit(1)
print("OK"); sys.exit(0)

# C03: a config document that contains the config-file argument's own key must not crash with AttributeError
from jsonargparse import ArgumentParser, ArgumentError, ActionConfigFile
p = ArgumentParser(exit_on_error=False); p.add_argument('--cfg', action=ActionConfigFile); p.add_argument('--a', type=int)
bad = []
for doc in ['cfg: x', 'cfg: 3', '{"cfg": {"k": 1}, "a": 2}']:
    try: p.parse_args(['--cfg', doc])
    except ArgumentError: pass
    except Exception as ex: bad.append((doc, repr(ex)))
print('bad:', bad); raise SystemExit(1 if bad else 0)

"""save() to an fsspec path (memory://): a configuration that is invalid or cannot be serialised leaves the
target as it was (the text is produced before the file is opened, as on the local branch)."""
import sys
from typing import Any

try:
    import fsspec
    from jsonargparse._optionals import fsspec_support
    assert fsspec_support
    mem = fsspec.filesystem("memory")
except Exception:
    print("OK (fsspec not importable: save() has no fsspec branch here)"); sys.exit(0)
from jsonargparse import ArgumentParser

URL = "memory://verif-f61/config.yaml"
KEY = "/verif-f61/config.yaml"
p = ArgumentParser(exit_on_error=False)
p.add_argument("--a", type=int, default=1)
p.add_argument("--any", type=Any, default=None)


def get():
    return mem.cat(KEY).decode() if mem.exists(KEY) else None


def run(cfg, **kw):
    try:
        p.save(cfg, URL, multifile=False, **kw)
        return "ok"
    except Exception as ex:
        return "%s: %s" % (type(ex).__name__, str(ex).split("\n")[0][:60])


invalid = p.parse_args([])
invalid.a = "not an int"
unser = p.parse_args([])
unser.any = object()
bad = []
for name, cfg in (("invalid", invalid), ("unserialisable", unser)):
    with fsspec.open(URL, "w") as f:
        f.write("precious: 1\n")
    r = run(cfg, overwrite=True)
    if r == "ok" or get() != "precious: 1\n":
        bad.append("%s configuration, existing target, overwrite=True: save -> %s, file now %r" % (name, r, get()))
    mem.rm("/verif-f61", recursive=True)
    r = run(cfg)
    if r == "ok" or get() is not None:
        bad.append("%s configuration, new target: save -> %s, file now %r" % (name, r, get()))
    if mem.exists("/verif-f61"):
        mem.rm("/verif-f61", recursive=True)
good = p.parse_args(["--a=3"])
r = run(good)
if r != "ok" or get() != p.dump(good):
    bad.append("valid configuration, new target: save -> %s, file now %r" % (r, get()))
if mem.exists("/verif-f61"):
    mem.rm("/verif-f61", recursive=True)
if bad:
    print("FAIL:\n  " + "\n  ".join(bad)); sys.exit(1)
print("OK"); sys.exit(0)

"""strip_link_target_keys: a link target `dest.init_args.X` must be absent from dump()/save() also when the value of
`dest` is a LIST of class specs (List[Class] argument), and re-parsing the dump must reconstruct the configuration."""
import json
import os
import sys
import tempfile
from calendar import Calendar, TextCalendar
from typing import List

import yaml

from jsonargparse import ArgumentParser

bad = []
p = ArgumentParser(exit_on_error=False)
p.add_argument("--day", type=int, default=2)
p.add_argument("--cals", type=List[Calendar], default=[])
p.add_argument("--one", type=Calendar, default=None)
p.link_arguments("day", "cals.init_args.firstweekday")
p.link_arguments("day", "one.init_args.firstweekday")
items = [{"class_path": "calendar.Calendar"}, {"class_path": "calendar.TextCalendar", "init_args": {"firstweekday": 5}}, "calendar.HTMLCalendar"]
cfg = p.parse_args(["--cals=" + json.dumps(items), "--one=calendar.Calendar", "--day=4"])
if [c.init_args.firstweekday for c in cfg.cals] != [4, 4, 4] or cfg.one.init_args.firstweekday != 4:
    bad.append("links not applied: %r" % (cfg,))
for fmt, load in (("yaml", yaml.safe_load), ("json", json.loads)):
    text = p.dump(cfg, format=fmt)
    d = load(text)
    if "init_args" in d["one"]:
        bad.append("%s dump keeps the target of the single class: %r" % (fmt, d["one"]))
    for i, it in enumerate(d["cals"]):
        if "firstweekday" in (it.get("init_args") or {}):
            bad.append("%s dump: item %d of the list keeps the link target: %r" % (fmt, i, it))
        if "init_args" in it and not it["init_args"]:
            bad.append("%s dump: item %d keeps an empty init_args: %r" % (fmt, i, it))
    cfg2 = p.parse_string(text)
    if cfg2 != cfg:
        bad.append("parse_string(dump(cfg, %s)) != cfg: %r" % (fmt, cfg2))
tmp = tempfile.mkdtemp()
for multifile in (False, True):
    path = os.path.join(tmp, "saved_%s.yaml" % multifile)
    p.save(cfg, path, multifile=multifile)
    d = yaml.safe_load(open(path).read())
    for i, it in enumerate(d["cals"]):
        if "firstweekday" in (it.get("init_args") or {}):
            bad.append("save(multifile=%s): item %d keeps the link target" % (multifile, i))
# the configuration itself is not touched by dump, other init_args of the items stay
if [c.init_args.firstweekday for c in cfg.cals] != [4, 4, 4]:
    bad.append("dump modified the configuration: %r" % (cfg.cals,))
q = ArgumentParser(exit_on_error=False)
q.add_argument("--day", type=int, default=2)
q.add_argument("--cals", type=List[TextCalendar], default=[])
q.link_arguments("day", "cals.init_args.firstweekday")
c3 = q.parse_args(["--cals=[\"calendar.LocaleTextCalendar\"]", "--day=1"])
d3 = json.loads(q.dump(c3, format="json"))
if "firstweekday" in (d3["cals"][0].get("init_args") or {}):
    bad.append("an item with other init_args (locale) keeps the target: %r" % (d3["cals"][0],))
if q.parse_object(d3) != c3:
    bad.append("re-parse of a list item with other init_args differs: %r vs %r" % (q.parse_object(d3), c3))
if bad:
    print("FAIL:\n  " + "\n  ".join(bad)); sys.exit(1)
print("OK"); sys.exit(0)
